"""'Poison' calls: legal but extreme, out-of-domain or failing uses of the public API, executed (outcomes ignored) before
every case of the checks that opt in.  On a pure library they leave nothing behind; a library that keeps state across calls
(a tolerance relaxed by a non-converging call and never restored, a table half-filled by a call that raised, a "last
configuration" remembered by the previous conversion) makes the case that follows fail its ordinary oracle comparison."""
import datetime
import warnings

import numpy as np


def own_objects(gc):
    """Other code in the process defines ITS OWN ellipsoid / projection / transformation / uncertainty objects from the very
    numbers of the shipped ones (in several numeric forms) and then adjusts their fields.  A constructor always builds a new
    object; the catalogue and the defaults of the API are unaffected."""
    import copy
    from decimal import Decimal

    def edit(o):
        for k, v in list(vars(o).items()):
            if isinstance(v, (int, float)) and not isinstance(v, bool):
                setattr(o, k, v * 1.01 + 0.003)
    for nm in ('grs80', 'wgs84', 'ans', 'intl24'):
        c = getattr(gc, nm)
        for a, i in ((c.semimaj, c.inversef), (float(c.semimaj), float(c.inversef)), (int(c.semimaj), Decimal(repr(float(c.inversef)))),
                     (np.float64(c.semimaj), np.float64(c.inversef)), (str(float(c.semimaj)), str(float(c.inversef)))):
            try:
                edit(gc.Ellipsoid(a, i))
            except Exception:
                pass
        edit(copy.copy(c))
    for nm in ('utm', 'isg'):
        c = getattr(gc, nm)
        edit(gc.Projection(c.falseeast, c.falsenorth, c.cmscale, c.zonewidth, c.initialcm))
        edit(gc.Projection(float(c.falseeast), float(c.falsenorth), float(c.cmscale), float(c.zonewidth), float(c.initialcm)))
    for nm in ('gda94_to_gda2020', 'itrf2014_to_gda2020', 'atrf2014_to_gda2020', 'itrf2008_to_gda94'):
        t = getattr(gc, nm, None)
        if t is None:
            continue
        edit(gc.Transformation(t.from_datum, t.to_datum, t.ref_epoch, t.tx, t.ty, t.tz, t.sc, t.rx, t.ry, t.rz,
                               t.d_tx, t.d_ty, t.d_tz, t.d_sc, t.d_rx, t.d_ry, t.d_rz, tf_sd=t.tf_sd))
        if isinstance(t.tf_sd, gc.TransformationSD):
            sd = t.tf_sd
            edit(gc.TransformationSD(sd.sd_tx, sd.sd_ty, sd.sd_tz, sd.sd_sc, sd.sd_rx, sd.sd_ry, sd.sd_rz, sd.sd_d_tx, sd.sd_d_ty,
                                     sd.sd_d_tz, sd.sd_d_sc, sd.sd_d_rx, sd.sd_d_ry, sd.sd_d_rz))


def run_all():
    import geodepy.constants as gc
    import geodepy.convert as cv
    import geodepy.geodesy as gg
    import geodepy.angles as ga
    import geodepy.transform as gt
    import geodepy.statistics as gs
    import geodepy.survey as sv
    calls = [
        lambda: gg.vincinv(0.0, 0.0, 0.5, 179.7),                  # nearly antipodal: the iteration does not converge
        lambda: gg.vincinv(0.0, 0.0, 0.0, 180.0),                  # exactly antipodal
        lambda: gg.vincinv(10.0, 20.0, float('nan'), 30.0, gc.intl24),
        lambda: gg.vincdir(89.999999, 10.0, 123.0, 1.9e7, gc.ans),
        lambda: cv.geo2grid(85.0, 10.0),                           # outside the latitude band: raises
        lambda: cv.geo2grid(-33.0, 151.0, 99),                     # invalid zone: raises
        lambda: cv.geo2grid(12.5, -77.25, 0, gc.intl24, gc.isg),   # another ellipsoid / projection than any case uses next
        lambda: cv.grid2geo(18, 612345.678, 4321098.765, 'North', gc.ans),
        lambda: cv.grid2geo(56, 300000, 6200000, 'east'),          # invalid hemisphere: raises
        lambda: cv.xyz2llh(0.0, 0.0, 6356752.0),                   # on the rotation axis
        lambda: cv.llh2xyz(90.0, 0.0, 0.0, gc.ans),
        lambda: ga.hp2dec(12.6),                                    # invalid HP: raises
        lambda: ga.HPAngle(0.0099),                                 # invalid HP: raises
        lambda: ga.dec2hp(719.9999999999999),
        lambda: gt.conform7(1.0, 2.0, 3.0, 'not a transformation'),  # raises
        lambda: gt.conform7(1.0, 2.0, 3.0, gc.Transformation('A', 'B', 0, 1, 2, 3, 4, 75.0, 0, 0)),  # rotation >= 60": raises
        lambda: gt.conform14(-4052051.7643, 4212836.2017, -2545106.0245, datetime.date(1999, 12, 31), gc.itrf2020_to_itrf88,
                             np.eye(3)),
        lambda: gs.error_ellipse(np.array([[1.0, 2.0, 0.0], [2.0, 1.0, 0.0], [0.0, 0.0, 1.0]])),   # not PSD: may raise
        lambda: gs.k_val95(2.5),                                    # raises TypeError
        lambda: sv.first_vel_corrn(1000.0, (281.8, 79.4), 15.0, 1013.25),   # neither humidity nor wet bulb: raises
        lambda: sv.va_conv(180.0, 10.0),                            # raises
        # calls that fail half-way through a wrapper (a mode flag / context left set by an exception)
        lambda: gt.transform_mga2020_to_mga94(61, 500000.0, 6000000.0),             # invalid zone: raises
        lambda: gt.transform_mga2020_to_mga94(55, 500000.0, 6000000.0, 10.0, np.eye(2)),   # 2x2 covariance: raises
        lambda: gt.transform_mga94_to_mga2020(55, 500000.0, 6000000.0, 10.0, np.eye(2)),
        lambda: gt.transform_mga2020_to_mga94(55, 500000.0, -5.0e7),               # absurd northing
        lambda: gt.transform_gda2020_to_atrf2014(1.0, 2.0, 3.0, 'not a date'),     # raises
        lambda: gt.transform_atrf2014_to_gda2020(1.0, 2.0, 3.0, None),             # raises
        lambda: gt.conform14(1.0, 2.0, 3.0, 'not a date', gc.itrf2014_to_gda2020),
        lambda: gg.vincinv_utm(55, 500000.0, 6000000.0, 99, 500000.0, 6000000.0),  # invalid second zone: raises
        lambda: gg.vincdir_utm(55, 500000.0, 6000000.0, 45.0, float('nan')),
        lambda: cv.geo2grid(ga.DMSAngle(-85, 0, 0), ga.DMSAngle(10, 0, 0)),
        lambda: gs.vcv_cart2local(np.eye(2), -23.0, 133.0),                        # wrong shape: raises
        lambda: gs.vcv_local2cart(np.zeros((3, 2)), -23.0, 133.0),
        lambda: sv.precise_inst_ht([], 0.5, 0.1),                                  # empty observation list
        lambda: sv.first_vel_params(0.0, 0.0),                                     # division by zero
        # non-finite coordinates through the covariance branch (what they leave in recycled work arrays)
        lambda: gt.conform7(float('nan'), 1.0, float('inf'), gc.gda94_to_gda2020, np.eye(3)),
        lambda: gt.conform14(float('inf'), float('nan'), 3.0, datetime.date(2020, 1, 1), gc.itrf2008_to_gda94, np.eye(3) * float('nan')),
        lambda: gs.vcv_cart2local(np.full((3, 3), float('nan')), -23.0, 133.0),
        # the hash twins -1 / -2 (CPython: hash(-1) == hash(-2)) in value positions
        lambda: gs.rotation_matrix(-1, 133.0),
        lambda: gs.rotation_matrix(-2.0, -1.0),
        lambda: sv.group_refractivity(0.85, -1, 1013.25, 10.0),
        lambda: sv.phase_refractivity(0.85, -2.0, 1013.25, 10.0),
        lambda: cv.geo2grid(-1, -2), lambda: cv.geo2grid(-2, -1),
        lambda: cv.llh2xyz(-1, -2, -1), lambda: cv.xyz2llh(-1, -2, 6.4e6),
    ]
    calls.append(lambda: own_objects(gc))
    with warnings.catch_warnings():
        warnings.simplefilter('ignore')
        with np.errstate(all='ignore'):
            for c in calls:
                try:
                    c()
                except Exception:
                    pass
