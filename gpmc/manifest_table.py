"""Source of MANIFEST.json (bin/mkmanifest).  One entry per property whose check is built;
every other property id is listed under not_applicable with the reason 'check not built yet'
until its check exists (so the manifest is valid at all times)."""
import json
import os

HERE = os.path.dirname(os.path.dirname(os.path.abspath(__file__)))

TECH = 'bounded exhaustive enumeration (explicit-state exploration of the real code against an independent reference model)'

CHECKS = {
    'C01': dict(
        text='Complete sweep of a structured lattice on the real geo2grid: 19 (ellipsoid, projection) configurations x '
             'latitude lattice (band limits, equator +-1e-12..1e-6, fill) x automatic-zone longitudes (every zone boundary '
             'and central meridian +-1e-9/1e-6, fill) and explicit zones x offsets to 30 deg, x 6 input types; each state '
             'compared with the exact Transverse Mercator (Gauss-Krueger by definition: complex isometric latitude + '
             'meridian-arc quadrature). quick ~1.3 M states, thorough ~20 M.',
        note='Exact TM in float64, validated at every run against 34-digit mpmath (<2e-8 m) and the elliptic-integral '
             'closed form; continuum decided on lattices (finest regular spacing 1 x 1.5 deg + seed-shifted copy).',
        design='§5/C01'),
    'C02': dict(
        text='Depth-3 exploration geo->grid->geo->grid from every C01 state, plus a lattice placed directly on the grid '
             '(zones x hemispheres x E x N, domain classified by the oracle inverse) with mirror pairs, plus the '
             'stand-alone converter (function and csv batch path) against the library.',
        note='Domain clauses evaluated by the exact-TM oracle; mirror "identical" read at the 11-decimal output '
             'resolution; one open finding (longitude closure at |lat|>70 deg limited by 0.1 mm output rounding).',
        design='§5/C02'),
    'C03': dict(
        text='Complete sweep: 9 ellipsoids x latitude lattice (0, +-1e-12, +-1e-9, +-90, fill) x longitudes in [-360, 360] x '
             '5 heights x 6 input types through llh2xyz against the closed form in 40-digit arithmetic (1 um), then '
             'xyz2llh (depth 2) judged by re-projecting its result with the oracle (0.02 mm); plus a lattice placed '
             'directly in Cartesian space (all octants, p from 1 mm to 4.6e7 m, heights classified by the oracle inverse).',
        note='mpmath closed form on the exact binary values of the arguments; continuum decided on lattices.',
        design='§5/C03'),
    'C04': dict(
        text='Complete sweep of vincdir over 8 ellipsoids x start latitudes (poles, equator +-1e-9, fill) x 4 start '
             'longitudes x azimuth lattice (cardinals, 1e-9, 359.999999, 360, fill) x distances 0..20 000 km (log and '
             'linear) x input types (~1.6 M states quick) against the exact geodesic obtained by quadrature of the '
             'auxiliary-sphere integrals; the structural sub-lattice additionally through the 34-digit oracle.',
        note='float64 oracle validated at run time against mpmath (<1e-7 m, <1e-11 deg), own round trip and pole-limit '
             'continuity; end-point separation measured as 3-D chord.',
        design='§5/C04'),
    'C05': dict(
        text='All ordered pairs of a point lattice (poles, equator +-1e-9, antimeridian +-1e-6, 1 mm / 1 m neighbours, fill; '
             'separation <= 178 deg) x 6-8 ellipsoids through vincinv; result fed to the exact direct geodesic (arrival <= 2 mm), '
             'reverse azimuth vs oracle azimuth at point 2; depth 2: swap and common longitude offsets {+14,-90,+360,-360} '
             'with azimuth changes weighed by the oracle reduced length (~0.7 M pairs, 4 M calls quick); angle-class and '
             'numpy-scalar arguments (also mixed with floats) must give the float result; arbitrary ellipsoids are fresh objects per row.',
        note='Reduced length by differencing the oracle; one open finding (sub-nanometre azimuth noise on lines < 10 m).',
        design='§5/C05'),
    'C06': dict(
        text='conform7 on all 120 shipped sets, negations and a 143-set parameter lattice (2^7 corners of |t|=1000 m, '
             '|s|=100 ppm, |r|=59.999", axis points, zero) x a Cartesian lattice (all octants, |x| to 5e7 m) against the '
             'formula evaluated in 40-digit arithmetic (1 um); depth 2 with the negated set (second-order bound, stated '
             'limits for shipped sets); covariance branch over a PSD lattice (rank 0-3, condition 1e8, 7 rotations) x sets '
             'with/without uncertainties: None / symmetric PSD equal to J Q J^T.',
        note='Jacobian of the oracle validated against 60-digit central differences at run time; numeric limits for shipped '
             'sets asserted within 7e6 m of the geocentre, the second-order bound everywhere.',
        design='§5/C06'),
    'C07': dict(
        text='conform14 on every shipped set with a date epoch (106), negations and a rate lattice x epoch lattice '
             '(1980-2060: range ends, every catalogue epoch +-1 day, every 29 Feb, yearly/monthly 1st, seed-shifted day) x 12 '
             'points against the 7-parameter formula with parameters advanced in exact rationals (2 um); reference-epoch '
             'reduction to conform7; depth 2 negation; ATRF wrappers mutual inverses + bit-exact identity at 2020.0; '
             'covariance with uncertainties advanced to the epoch, repeated calls identical.',
        note='Julian year 365.25 d; implementation rounding of advanced parameters (8 decimals) is inside the tolerance.',
        design='§5/C07'),
    'C08': dict(
        text='Explicit-state BFS of the conversion graph (9 notations, 72 edges: every x2y function, object method, '
             'constructor, math.degrees/radians, vectorised variants) from every lattice angle injected in every notation: '
             'complete whole-arc-second lattice (18 structural degrees quick / all 360 thorough, both signs) at depth 1, '
             'structural sub-lattice, fractional seconds (1e-9, 1e-8, 0.5, 59.999999999) and degrees 360-719 at depth 3; '
             'every reached state must denote the start angle within 1e-8" (exact rationals / 40-digit pi), every HP float '
             'must be valid, no edge may raise; invalid HP lattice must be rejected; every whole minute around the 512-degree '
             'precision threshold, both signs; numpy-scalar / int forms of the numbers as separate start states. ~26 M transitions quick.',
        note='HP floats are read through their 13-decimal string (12 from 512 deg, where float64 has no 13th decimal).',
        design='§5/C08'),
    'C09': dict(
        text='History exploration: every ordered sequence of calls (alphabet of 77 representative public calls incl. aliasing twins (same numbers, other ellipsoid / parameter set), derived (re-epoched, negated) sets, caller-owned '
             'lists/arrays, covariance and both directions of every transformation) up to depth 2 (quick) / 3 (thorough), each '
             'history in a forked pristine interpreter; per transition: write barrier silent, deep snapshot of all 140+ '
             'constants unchanged, arguments unchanged, result bit-identical to the pristine-interpreter reference; the set of '
             'reachable library states closes at one state. Schedule exploration: all unordered pairs of the 15-call '
             'shared-object seam as two real threads under a deterministic scheduler, every interleaving with <= 1 '
             'preemption (<= 2 on structural pairs; 3 threads and opcode granularity in thorough), each execution checked '
             'like a sequential one.',
        note='Scheduling points = line events in transform/constants/coord/statistics plus any module whose data the '
             'sequential pass saw change; 2-3 threads, <= 2 preemptions; larger thread counts by the commutation argument in DESIGN.md.',
        technique='bounded exhaustive enumeration of call histories and of thread schedules (iterative context bounding) on the real code',
        design='§5/C09'),
    'C10': dict(
        text='Every C01 state and its grid2geo image: point scale factor and grid convergence against '
             'k=|dz/dzeta|/(nu cos phi), gamma=arg(dz/dzeta) of the exact projection for the requested ellipsoid and '
             'projection, all four quadrants, |lon-CM|<=30 deg; forward vs inverse at the same point.',
        note='Sign convention validated against a finite difference of the oracle image of the meridian; float64 oracle '
             'validated against mpmath at run time.',
        design='§5/C10'),
    'C12': dict(
        text='Explicit-state BFS over angle objects: 18 leaf values x 5 classes, operators + - (and reflected), unary -, abs, '
             '*k, k*, /k, %k, round(n), == != < > against every leaf, depth 3 over the full alphabet (80 M transitions; '
             'thorough adds depth 4 on a 6-value sub-alphabet), plus one depth-6 expression evaluated '
             'under all 5^7 assignments of classes to its leaves; oracle = the same operator on the .dec() floats.',
        note='Reference is IEEE float arithmetic on the operands; magnitudes kept below 720 deg.',
        design='§5/C12'),
    'C11': dict(
        text='Complete enumeration of a finite space: all 120 Transformation constants, all 59 forward/reverse '
             'pairs, all 384 ITRF triples compared in exact rational arithmetic, an IERS tuple lattice, and an '
             'explicit-state BFS (depth 3, 13 catalogue epochs) of the object algebra {__neg__, __add__}.',
        note='Frame names are read from the variable names; chain composition is first order (as the published '
             'tables are); Fraction(repr(float)) recovers the typed decimals. Trusted base: CPython fractions.',
        design='§5/C11'),
    'C13': dict(
        text='Both MGA transformations on zones 46-59 x easting/northing lattice (lat -60..-5) x heights {absent,-100,0,603.3466,3000}, '
             'a structural set of other zones down to lat -80, and zone-boundary points whose image changes natural zone; each '
             'result compared with the definition rebuilt from independent oracles (exact TM inverse, closed forms in 40 digits, '
             'exact 7-parameter formula, exact TM forward in the natural zone); depth 2 there-and-back (0.3 mm / 0.2 mm); '
             'covariance over a PSD lattice and 3x1 columns against R2^T(J(R1 S R1^T (+) Q)J^T)R2.',
        note='Only southern grid coordinates are accepted by the functions; agreement asserted at the returned resolution (0.2 mm).',
        design='§5/C13'),
    'C14': dict(
        text='vincinv_utm / vincdir_utm / line_sf on hemispheres x 7 zones x 6 eastings x latitudes -79..83 x 10-18 bearings x '
             'lengths {1 m,100 m,10 km,100 km}, second point in the same zone or handed over in the adjacent zone; oracle: exact TM '
             'positions/convergence/scale, exact inverse geodesic by Newton on the exact direct geodesic; depth 2 (direct with '
             'the inverse output reproduces point 2 in zone 1 within 1 mm); LSF within the oracle min/max of k along the line '
             '(3e-7) and its Simpson mean (5e-7).',
        note='Grid-bearing tolerance includes the angle 5 um subtends over the line (positions are returned rounded to 1e-11 deg).',
        design='§5/C14'),
    'C15': dict(
        text='Explicit-state BFS of the representation graph {CoordCart, CoordGeo x 6 notations, CoordTM} under .geo/.tm/.cart/'
             '.notation for (GRS80,UTM), (ANS,ISG), (ANS,UTM), from a position x height-combination lattice injected in every '
             'representation, depth 3 (4 thorough): each edge equals the functional API bit for bit, heights transported, '
             'N = h - H, and every reached state denotes the start position within 0.3 mm by independent oracles; positions with '
             'coordinates in (-1, 0) deg; identical grid numbers explored under two ellipsoids inside one process.',
        note='"Any reached state denotes the start position" contains every closed chain of the statement.',
        design='§5/C15'),
    'C16': dict(
        text='rotation_matrix / enu2xyz / xyz2enu on latitude {+-90,+-45,0,fill} x longitude [-360,360] x 9 vectors x 6 input '
             'types (orthonormality, det +1, east/north/normal columns, depth-2 inverse and length); covariance rotations on the '
             'PSD lattice (rank 0-3, condition 1e8, 7 rotations) and 3x1 columns at 8 positions incl. poles (symmetry, '
             'eigenvalues, trace, round trip, rotated diagonal); error ellipse / relative error against eigen-decomposition '
             'oracles; k_val95 for every integer dof in -5..200 against the scipy Student-t quantile.',
        note='numpy eigvalsh and scipy t quantile (cross-checked with stdtrit) are the trusted base.',
        design='§5/C16'),
    'C19': dict(
        text='joins/radiations/polar2rect/rect2polar on 4 origins x 5 lengths (1 mm..1e7 m) x bearings every 15 deg + the axes '
             '+-1e-9 deg with rotation/scale variants; va_conv on zenith x slope x instrument/target heights; first velocity '
             'correction on wavelength x temperature (incl. 0 C) x pressure x humidity (incl. 0 %) / wet bulb x CO2 x distance: '
             'defined everywhere, proportional, CO2 form = (n_ref/n_g - 1) d, within 1 ppm of the closed form; group = phase + '
             'sigma dN/dsigma by a 5-point stencil of phase_refractivity.',
        note='Plane geometry against IEEE trigonometry with the stated 1e-9 d tolerance.',
        design='§5/C19'),
    'C20': dict(
        text='Flask test client: /vincdir and /vincinv over a query lattice (negative/western values, HP-valid and decimal text, '
             'cardinal azimuths, poles, antimeridian, coincident points) x all 9 combinations of from/to angle type in {dd, dms, '
             'absent}: status 200 and JSON bit-identical to the library call with hp2dec/dec2hp applied; the index lists and '
             'serves every rule of the URL map. ~14 600 requests.',
        note='hp2dec/dec2hp are the reference for the DMS angle type (decided by C08).',
        design='§5/C20'),
    'C17': dict(
        text='Generated .gsb files (validated by an independent struct reader): single / two disjoint / parent+child / parent+two '
             'children layouts, shapes from {3,4,5,8,60}^2, increments 30-3600", both hemispheres, east/west longitudes, fractional '
             'extents, constant/linear/bi-quadratic/cubic float32-exact fields that differ per sub-grid; per sub-grid EVERY cell '
             '(outer two rings + diagonals for 60-wide grids) x 6 positions, closing edge nodes, points 1e-9 deg inside/outside each '
             'extent edge; bilinear and bicubic; metadata read-back; finest-sub-grid rule (three nesting levels); None/ValueError '
             'outside; ntv2_2d signs; zero / blank / arbitrary padding bytes; every worker reuses one file path.',
        note='Generator files only; points exactly on a north/west edge may return no value (half-open extents) but never a wrong one.',
        design='§5/C17'),
    'C18': dict(
        text='Generated SINEX 2.02 files (1-6 stations quick / 1-12 thorough, solution numbers 1-3, with/without velocities, L/U, '
             'dense and block-diagonal SPD covariance): remove_stns_sinex with EVERY subset of stations except all, '
             'remove_velocity_sinex, remove_matrixzeros_sinex and the three readers; output parsed by a strict fixed-column '
             'SINEX parser and compared with a list/numpy.delete model (value-exact); the wall clock is a seam: 9 times x 6 '
             'days-of-year as single deviations and all pairs on small files, outputs identical except the time stamp; the same '
             'list object reused for a second removal; stations just south/north of the equator and at 0/360 deg longitude.',
        note='pandas stub registered so geodepy.gnss imports offline; clock seam replaces geodepy.gnss.datetime.',
        technique='bounded exhaustive enumeration of file shapes x removal subsets x environment answers (clock) on the real code against a reference model',
        design='§5/C18'),
}

ALL = ['C%02d' % i for i in range(1, 21)]


CROSS_DEFAULT = (' Cross-cutting dimensions explored in the same run (DESIGN.md Part II, rounds 4-8): every exact numeric / '
                 'matrix / object form of the same input (ints, numpy integers of every width incl. unsigned, read-only / strided / '
                 'integer-typed arrays, objects rebuilt from text, with fields assigned, pickled, copied, boolean flags as numpy bools); '
                 'every spelling of a call against a pinned signature table (positional, keyword, partly keyword, documented defaults '
                 'left out); alternative process environments (time zone, decimal context, numpy print options, cwd) around every n-th '
                 'case and fresh interpreters started with -O / -OO / PYTHONOPTIMIZE and 16 hash seeds; failing / NaN / extreme '
                 '"poison" calls between cases; process-wide interpreter state (warning filters, decimal context, numpy error state, '
                 "cwd, ...) as an invariant around every case; and a 'threads' sub-check: every interleaving (line granularity, <= 1 "
                 "preemption quick / 2 thorough where one execution has <= 90 scheduling points) of two calls of the property's own API "
                 'with different inputs per thread in a freshly forked interpreter (first-use initialisation included; module-level '
                 'locks of the library are replaced by cooperative proxies), each result compared with the call executed alone. '
                 'Round 7: allocation history (a garbage-filled numpy buffer of every small size is released before every 5th real '
                 'call), other code in the process building and editing its own ellipsoid / projection / transformation objects '
                 'from the shipped numbers between cases, and - C01-C05, C10, C14 - histories over 2600 (thorough 70000) '
                 'never-seen ellipsoids / projections / positions with the reference calls repeated at every power of two. '
                 'Round 8: debug logging switched on by the application as one more process environment, angle objects with '
                 'unreduced fields / restored from stored dictionaries without their constructor / built by keyword, and the rule '
                 'that a result the evaluator cannot read as the documented value is a violation.')
CROSS = {
    'C02': (' Also: batch-converter inputs of 250 / 2000 / 30000 (thorough 110000) rows (every row present, in order).'),
    'C03': (' Also: numeric text forms of the angles (repr, exponent notation, explicit sign, blanks) and the ellipsoid as a '
            'subclass instance / copy / pickle round trip / duck-typed object.'),
    'C10': (' Also: every spelling of the hemisphere word (rejected, or meaning the hemisphere it names) and the ellipsoid / '
            'projection as subclass instances, copies, pickle round trips and duck-typed objects, in both directions.'),
    'C14': (' Also: 800 lines whose second point lies 2-120 m inside the hemisphere next to the equator.'),
    'C09': (' Every result is overwritten at its top level right after the call (a result belongs to the caller); the canonical '
            'form of an array includes its writeable flag. Also: shared caller-owned objects (histories of depth 3 and all pairs of calls on one object under the scheduler), '
            'rejected calls as history elements, hash twins (-1 / -2), statements on constants (+=), and the soak sub-check '
            '(1500 / 6000 distinct argument tuples through each of 20 functions and back in reverse order, anchored in a pristine '
            'interpreter).'),
    'C18': (' Also: parameter orders other than station-major (positions-then-velocities, velocities first, X/VX pairs, reversed '
            'stations), running clocks (the substituted clock advances between readings across second / midnight / year '
            'boundaries), alternative process environments; the editing functions write a fixed output file and are explored '
            'sequentially.'),
}


def build():
    checks = []
    for pid in ALL:
        if pid not in CHECKS:
            continue
        c = CHECKS[pid]
        checks.append({
            'property_id': pid,
            'quick_cmd': 'bin/check %s quick' % pid,
            'thorough_cmd': 'bin/check %s thorough' % pid,
            'evidence_file': 'evidence/%s.json' % pid,
            'replay_cmd_template': 'bin/check --replay {path}',
            'engine': 'gpmc',
            'level_claimed': {'category': 'model_checking', 'text': c['text'] + CROSS.get(pid, CROSS_DEFAULT), 'design_ref': c['design']},
            'level_note': c['note'],
            'technique': c.get('technique', TECH),
        })
    na = [{'property_id': pid, 'reason': 'check not built yet in this session (planned: bounded exhaustive '
                                         'enumeration per DESIGN.md §5); no claim is made for it'}
          for pid in ALL if pid not in CHECKS]
    m = {
        'version': 1,
        'setup_cmd': 'bin/setup',
        'hooks': {
            'guard': 'GEODEPY_VERIF',
            'enable': 'none needed: all instrumentation (write barrier, fake clock, pandas stub, thread scheduler) '
                      'is installed by the harness at import time; bin/check exports GEODEPY_VERIF=1 for the harness only',
            'baseline_off_cmd': 'cd /repo && env -u GEODEPY_VERIF /venv/bin/python -m pytest -ra -q -p no:cacheprovider '
                                '--timeout=900 --continue-on-collection-errors',
            'source_commits': [],
            'add_only': True,
        },
        'engines': [{
            'name': 'gpmc', 'path': 'gpmc/',
            'serves_properties': [c['property_id'] for c in checks],
            'kind_free_text': 'hand-written explicit-state explorer for Python: complete enumeration of input lattices x '
                              'configurations x input forms x process environments x operation sequences x thread schedules executed on the real '
                              'code, checked against independent oracles (mpmath / exact rationals)',
        }],
        'checks': checks,
        'notes': 'See DESIGN.md. Known findings: known_findings.json. Seeded breaking changes: seeded/.',
    }
    m['not_applicable'] = na       # explicit (empty: every listed property is claimed and decided by bounded exhaustive enumeration)
    return m
