"""gpmc core: run context, recorder, fork pool, evidence, known findings, replay.

A *check* (gpmc/checks/cNN.py) exposes

    PROPERTY  = 'C11'
    SUBCHECKS = [Sub(...), ...]        # enumerated completely, in order
    def bounds(tier, seed) -> dict     # what was enumerated (for the evidence file)

Every Sub enumerates a finite space of *cases* (JSON-serialisable), executes the real
library on each case and evaluates the property through a Recorder.  The deciding step
is always the complete enumeration of sub.chunks(tier, seed) -> sub.cases(chunk).
"""
import hashlib
import itertools
import json
import math
import multiprocessing as mp
import os
import sys
import time
import traceback
from collections import Counter

HOME = os.environ.get('VERIF_HOME', os.path.dirname(os.path.dirname(os.path.abspath(__file__))))
REPO = os.path.realpath(os.environ.get('VERIF_REPO', '/repo'))
SCRATCH = os.environ.get('VERIF_SCRATCH') or '/dev/shm'

MAX_PER_SITE = 3      # ... and per (subcheck, site)
MAX_KEEP = 12          # unknown violations kept in full per (worker chunk, subcheck)
GOLD = 0.6180339887498949


def seed_phase(seed, salt=0):
    """deterministic phase in [0,1) derived from the seed: selects WHICH complete
    lattice is swept in addition to the fixed structural one (never a sample)."""
    if seed == 0 and salt == 0:
        return 0.5
    return ((seed + 1) * GOLD + salt * 0.7548776662466927) % 1.0


def h64(obj):
    if not isinstance(obj, (bytes, str)):
        obj = repr(obj)
    if isinstance(obj, str):
        obj = obj.encode()
    return int.from_bytes(hashlib.blake2b(obj, digest_size=8).digest(), 'big')


def jsonable(x):
    """make a value JSON-serialisable without losing float bits (floats stay floats:
    json round-trips repr exactly); numpy and exotic objects are tagged."""
    try:
        import numpy as np
    except Exception:  # pragma: no cover
        np = None
    if x is None or isinstance(x, (bool, str)):
        return x
    if isinstance(x, int):
        return int(x)
    if isinstance(x, float):
        if type(x) is not float:
            x = float.__float__(x)      # a float subclass (DECAngle) with its own __eq__ must not reach the JSON encoder
        if math.isnan(x) or math.isinf(x):
            return {'__float__': repr(x)}
        return x
    if np is not None and isinstance(x, np.generic):
        return jsonable(x.item())
    if np is not None and isinstance(x, np.ndarray):
        return {'__ndarray__': x.tolist(), 'dtype': str(x.dtype)}
    if isinstance(x, (list, tuple)):
        return [jsonable(v) for v in x]
    if isinstance(x, dict):
        return {str(k): jsonable(v) for k, v in x.items()}
    if isinstance(x, BaseException):
        return {'__exc__': type(x).__name__, 'msg': str(x)[:300]}
    return {'__repr__': repr(x)[:300]}


# --------------------------------------------------------------------------------------
# known findings
# --------------------------------------------------------------------------------------
_OPS = {
    '==': lambda a, b: a == b,
    '!=': lambda a, b: a != b,
    '>=': lambda a, b: a >= b,
    '<=': lambda a, b: a <= b,
    '>': lambda a, b: a > b,
    '<': lambda a, b: a < b,
    'in': lambda a, b: a in b,
    'abs>=': lambda a, b: abs(a) >= b,
    'abs<=': lambda a, b: abs(a) <= b,
    'abs<': lambda a, b: abs(a) < b,
    'abs>': lambda a, b: abs(a) > b,
}


def load_findings(pid):
    path = os.path.join(HOME, 'known_findings.json')
    if not os.path.exists(path):
        return []
    with open(path) as f:
        data = json.load(f)
    return [e for e in data.get('findings', []) if e.get('property') == pid and e.get('status') == 'open']


def match_finding(findings, v):
    """a violation is explained by an open finding only if it is the same sub-check at
    the same site, inside the finding's region and under its cap."""
    for e in findings:
        subs = e.get('subcheck')
        if subs is not None and v.get('subcheck') not in (subs if isinstance(subs, list) else [subs]):
            continue
        if e.get('site') and e.get('site') != v.get('site'):
            continue
        coords = v.get('coords', {})
        ok = True
        for fld, op, val in e.get('predicate', []):
            if fld not in coords:
                ok = False
                break
            try:
                if not _OPS[op](coords[fld], val):
                    ok = False
                    break
            except Exception:
                ok = False
                break
        if ok:
            return e['id']
    return None


def _mutable(x):
    if x is None or isinstance(x, (bool, int, float, str, bytes, tuple, frozenset, type)) or callable(x):
        return False
    try:
        import numpy as np
        if isinstance(x, np.generic):
            return False
        if isinstance(x, np.ndarray):
            return True
    except Exception:  # pragma: no cover
        pass
    return isinstance(x, (list, dict, set, bytearray)) or hasattr(x, '__dict__')


# --------------------------------------------------------------------------------------
# recorder
# --------------------------------------------------------------------------------------
_DIRTY = []


def dirty_allocator():
    """Allocation history as a dimension.  numpy keeps freed small buffers (< 1 KiB) in per-size LIFO free lists and hands the
    most recently freed one to the next array of that size WITHOUT clearing it; what an application freed before a library call is
    not the library's business.  Every 5th real call is preceded by the release of one garbage-filled buffer of every small size
    (8 .. 1024 bytes): a work array allocated with numpy.empty and not completely written then carries the garbage into the result,
    deterministically (fixed fill value), instead of the zeros a fresh process happens to provide."""
    import numpy as np
    if not _DIRTY:
        _DIRTY.append([n for n in range(1, 129)])
    for n in _DIRTY[0]:
        a = np.full(n, 7.0e5)
        del a


class Recorder(object):
    def __init__(self, pid, findings=()):
        self.pid = pid
        self.findings = list(findings)
        self.sub = None
        self.cases = 0
        self.transitions = 0
        self.states = set()
        self.nontrivial = set()
        self.outcomes = Counter()
        self.viol = []          # kept unknown violations
        self.viol_count = Counter()   # subcheck -> count of unknown violations
        self.known = Counter()  # finding id -> count
        self.known_example = {}
        self.samples = []
        self.skipped = Counter()
        self.maxdev = {}        # name -> (value, case)
        self._case = None
        self.guard = False
        self._held = []

    # -- bookkeeping ------------------------------------------------------------
    def begin_case(self, sub, case):
        self.sub = sub
        self._case = case
        self.cases += 1
        self._held = []

    def transition(self, n=1):
        self.transitions += n

    def state(self, key):
        self.states.add(h64(key))

    def nontriv(self, key=None):
        """the implementation returned a value AND the oracle comparison was evaluated"""
        self.nontrivial.add(h64((self.sub, self._case if key is None else key)))

    def outcome(self, o):
        self.outcomes[(self.sub, o)] += 1

    def skip(self, why):
        self.skipped[(self.sub, why)] += 1

    def sample(self, obj, limit=3):
        if sum(1 for s in self.samples if s.get('subcheck') == self.sub) < limit:
            self.samples.append({'subcheck': self.sub, 'sample': jsonable(obj)})

    def dev(self, name, value, case=None):
        """track the largest deviation seen for a named comparison (reported in evidence)"""
        try:
            value = float(value)
        except Exception:
            return
        if value != value:
            return
        k = self.sub + ':' + name
        cur = self.maxdev.get(k)
        if cur is None or value > cur[0]:
            self.maxdev[k] = (value, jsonable(self._case if case is None else case))

    def call(self, fn, *a, **kw):
        """one real transition: returns ('ok', value) or ('raise', exception).
        With self.guard (sub-checks created with guard=True) every call is also a purity probe: mutable arguments (lists,
        dicts, arrays, objects) must be unchanged afterwards, and mutable values returned by the previous calls must still be
        what they were (a library that hands out a shared work array or cached object is caught when the next call
        overwrites it)."""
        self.transitions += 1
        if self.transitions % 5 == 0:
            dirty_allocator()
        if not self.guard:
            try:
                return 'ok', fn(*a, **kw)
            except Exception as e:  # the library's exceptions are outcomes, not crashes
                return 'raise', e
        from gpmc.snapshot import canon
        margs = [(i, x, canon(x)) for i, x in enumerate(list(a) + list(kw.values())) if _mutable(x)]
        try:
            st, r = 'ok', fn(*a, **kw)
        except Exception as e:
            st, r = 'raise', e
        name = getattr(fn, '__name__', 'call')
        for i, x, c in margs:
            if canon(x) != c:
                self.fail('%s modified an argument supplied by the caller (argument %d, %s)' % (name, i, type(x).__name__),
                          site='purity:argument:' + name, observed=repr(x)[:200], coords={'fn': name, 'arg': i})
        for (hn, ho, hc) in self._held:
            if ho is not r and canon(ho) != hc:
                self.fail('a value returned earlier by %s was changed by a later call to %s (results share storage)' % (hn, name),
                          site='purity:result-overwritten:' + hn, observed=repr(ho)[:200], coords={'fn': name, 'earlier': hn})
                self._held = []
                break
        if st == 'ok':
            for part in (r if isinstance(r, tuple) else (r,)):
                if _mutable(part) and not any(part is x for _, x, _ in margs):
                    self._held.append((name, part, canon(part)))
            del self._held[:-4]
        return st, r

    # -- verdicts ---------------------------------------------------------------
    def fail(self, msg, site=None, observed=None, expected=None, tol=None, coords=None, case=None):
        v = {'property': self.pid, 'subcheck': self.sub, 'site': site, 'msg': msg,
             'case': jsonable(self._case if case is None else case),
             'observed': jsonable(observed), 'expected': jsonable(expected), 'tol': jsonable(tol),
             'coords': jsonable(coords or {})}
        fid = match_finding(self.findings, v)
        if fid is not None:
            self.known[fid] += 1
            self.known_example.setdefault(fid, v)
            return
        self.viol_count[self.sub] += 1
        self._keep(v)

    def _keep(self, v):
        same_sub = [x for x in self.viol if x['subcheck'] == v['subcheck']]
        same_site = [x for x in same_sub if x.get('site') == v.get('site')]
        if len(same_sub) < MAX_KEEP and len(same_site) < MAX_PER_SITE:
            self.viol.append(v)

    # -- merge ------------------------------------------------------------------
    def export(self):
        return {'cases': self.cases, 'transitions': self.transitions, 'states': self.states,
                'nontrivial': self.nontrivial, 'outcomes': self.outcomes, 'viol': self.viol,
                'viol_count': self.viol_count, 'known': self.known, 'known_example': self.known_example,
                'samples': self.samples, 'skipped': self.skipped, 'maxdev': self.maxdev}

    def merge(self, d):
        self.cases += d['cases']
        self.transitions += d['transitions']
        self.states |= d['states']
        self.nontrivial |= d['nontrivial']
        self.outcomes.update(d['outcomes'])
        self.viol_count.update(d['viol_count'])
        for v in d['viol']:
            self._keep(v)
        self.known.update(d['known'])
        for k, v in d['known_example'].items():
            self.known_example.setdefault(k, v)
        for s in d['samples']:
            if sum(1 for x in self.samples if x.get('subcheck') == s.get('subcheck')) < 3:
                self.samples.append(s)
        self.skipped.update(d['skipped'])
        for k, (val, case) in d['maxdev'].items():
            cur = self.maxdev.get(k)
            if cur is None or val > cur[0]:
                self.maxdev[k] = (val, case)


# --------------------------------------------------------------------------------------
# sub-check description
# --------------------------------------------------------------------------------------
class Sub(object):
    """name      : sub-check id (used in known findings and replays)
    gen(tier, seed) -> iterable of cases  (complete enumeration of the declared space)
    evalf(case, rec)                       (executes the real code, evaluates the invariant)
    chunk     : cases per work unit;  floor: minimum number of non-trivial cases (vacuity guard)
    parallel  : False to run in the parent process (e.g. for checks that manage threads)
    """

    def __init__(self, name, gen, evalf, chunk=200, floor=1, parallel=True, doc='', timeout=0, guard=False, poison=True, envs=0, fresh=False):
        self.name = name
        if envs:
            # every envs-th case is evaluated a second time in an alternative process environment (gpmc.envs)
            from gpmc import envs as _envs
            # (thorough tier: four times as often)
            gen = (lambda g: (lambda tier, seed: _envs.expand(g(tier, seed), envs if tier == 'quick' else max(1, envs // 4))))(gen)
        self.envs = envs
        self.proc_ignore = ()       # keys of snapshot.snap_process() the harness itself changes in this sub-check (e.g. 'cwd')
        self.fresh = fresh          # every work unit in a newly forked copy of the parent (which has only imported the library)
        self.gen = gen
        self.evalf = evalf
        self.chunk = chunk
        self.floor = floor
        self.parallel = parallel
        self.doc = doc
        self.poison = poison        # extreme / failing API calls run before every case (gpmc.poison); off for C09, whose
                                    # worker processes must never execute library code themselves
        self.guard = guard          # every rec.call() is also an argument-unchanged / earlier-results-intact probe
        self.timeout = timeout      # seconds per case (0 = default 180 s; VERIF_CASE_TIMEOUT overrides)


class HarnessError(Exception):
    pass


def _in_repo(tb):
    for fs in traceback.extract_tb(tb):
        fn = os.path.realpath(fs.filename)
        if fn.startswith(REPO + os.sep):
            return True
    return False


class CaseTimeout(BaseException):      # not an Exception: rec.call() must not swallow it as a library outcome
    pass


_TIMEOUTS = {}     # sub-check -> time-outs seen in this worker process
_POISON = [0]


def _case_limit():
    try:
        return float(os.environ.get('VERIF_CASE_TIMEOUT', '') or 0)
    except ValueError:
        return 0.0


def eval_one(sub, case, rec):
    """evaluates one case under a watchdog: a change that makes the library loop forever (e.g. an iteration that no
    longer converges) must end as a reported violation, not as a check that never returns"""
    import signal
    rec.begin_case(sub.name, case)
    rec.guard = bool(getattr(sub, 'guard', False))
    if getattr(sub, 'poison', True):
        # before the first case a worker process evaluates and before every 25th after that (what such calls leave behind
        # stays behind, so it need not be repeated before every single case)
        _POISON[0] += 1
        if _POISON[0] % 25 == 1:
            from gpmc import poison
            poison.run_all()
    if _TIMEOUTS.get(sub.name, 0) >= 2:
        # the violation is already recorded twice by this worker; do not spend the time limit on every remaining case
        rec.skip('not run: the library already timed out twice in this sub-check')
        return
    limit = _case_limit() or getattr(sub, 'timeout', 0) or 180.0
    use_alarm = hasattr(signal, 'setitimer') and __import__('threading').current_thread() is __import__('threading').main_thread()

    def on_alarm(signum, frame):
        raise CaseTimeout('case did not finish within %.0f s' % limit)
    old = None
    if use_alarm:
        old = signal.signal(signal.SIGALRM, on_alarm)
        signal.setitimer(signal.ITIMER_REAL, limit)
    from gpmc import snapshot as _snp

    def run_case():
        # process-wide interpreter state (warning filters, decimal context, numpy error state / print options, locale, cwd, TZ,
        # sys.path, ...) belongs to the application: no library call may leave it changed
        p0 = _snp.snap_process()
        sub.evalf(case, rec)
        pd = [k for k in _snp.diff_process(p0, _snp.snap_process()) if k not in getattr(sub, 'proc_ignore', ())]
        if pd:
            rec.fail('process-wide interpreter state was changed while the case ran (%s)' % ', '.join(pd), site='purity:process-state:' + pd[0],
                     observed=pd, coords={'changed': pd})
    try:
        if isinstance(case, dict) and case.get('_env'):
            from gpmc import envs as _envs
            with _envs.applied(case['_env']):
                run_case()
            rec.outcome('env:' + case['_env'])
        else:
            run_case()
        from gpmc import cfg as _cfg
        if _cfg.FORM_MISMATCH:
            kind, want, got = _cfg.FORM_MISMATCH[0]
            del _cfg.FORM_MISMATCH[:]
            if isinstance(got, str):
                raise HarnessError('cfg.denote failed for form %r: %s' % (kind, got))
            rec.fail('an angle object of form %r built for %r degrees denotes %r degrees' % (kind, want, got),
                     site='angles:construct:' + kind, observed=got, expected=want, coords={'kind': kind, 'dec': want})
    except HarnessError:
        raise
    except CaseTimeout as e:
        _TIMEOUTS[sub.name] = _TIMEOUTS.get(sub.name, 0) + 1
        et, ev, tb = sys.exc_info()
        where = [fs for fs in traceback.extract_tb(tb) if os.path.realpath(fs.filename).startswith(REPO + os.sep)]
        site = ('%s:%s' % (os.path.relpath(os.path.realpath(where[-1].filename), REPO), where[-1].name)) if where else 'harness'
        rec.fail('the library did not return within %.0f s (non-terminating iteration?) in %s' % (limit, site), site='timeout:' + site,
                 observed=str(e), coords={'exc': 'timeout'})
    except Exception as e:
        et, ev, tb = sys.exc_info()
        if _in_repo(tb):
            # an exception escaping from the library where the harness expected a value
            last = [fs for fs in traceback.extract_tb(tb) if os.path.realpath(fs.filename).startswith(REPO + os.sep)][-1]
            rec.fail('unexpected %s from library: %s' % (type(e).__name__, str(e)[:200]),
                     site='%s:%s' % (os.path.relpath(os.path.realpath(last.filename), REPO), last.name),
                     observed=e, coords={'exc': type(e).__name__})
        elif isinstance(e, (TypeError, AttributeError, IndexError)) and not isinstance(e, HarnessError) and \
                any(os.sep + 'checks' + os.sep in fs.filename for fs in traceback.extract_tb(tb)[-2:]):
            # the evaluator of the check could not even read what the library returned (None where a number is documented, a
            # result of another shape or class): never seen on the unchanged tree - a different result, hence a violation
            fs = traceback.extract_tb(tb)[-1]
            rec.fail('the library returned something the check could not read as the documented result (%s: %s, at %s:%d)'
                     % (type(e).__name__, str(e)[:160], os.path.basename(fs.filename), fs.lineno), site='result-shape:' + sub.name,
                     observed=traceback.format_exc()[-400:], coords={'exc': type(e).__name__})
        else:
            raise HarnessError('harness exception in %s case %r:\n%s' % (sub.name, case, traceback.format_exc()))
    finally:
        if use_alarm:
            signal.setitimer(signal.ITIMER_REAL, 0)
            signal.signal(signal.SIGALRM, old)


_G = {}


def _work(args):
    si, cases = args
    mod, findings = _G['mod'], _G['findings']
    sub = mod.SUBCHECKS[si]
    rec = Recorder(mod.PROPERTY, findings)
    try:
        for case in cases:
            eval_one(sub, case, rec)
    except HarnessError as e:
        return {'error': str(e)}
    return rec.export()


def _chunks(it, n):
    it = iter(it)
    while True:
        block = list(itertools.islice(it, n))
        if not block:
            return
        yield block


def run_check(mod, tier, seed, jobs):
    pid = mod.PROPERTY
    findings = load_findings(pid)
    total = Recorder(pid, findings)
    per_sub = {}
    t0 = time.time()
    _G['mod'] = mod
    _G['findings'] = findings
    budget = float(os.environ.get('VERIF_BUDGET_S', '0') or 0)
    capped = []
    if hasattr(mod, 'prepare'):
        mod.prepare(tier, seed)
    pool = None
    try:
        # sub-checks that need workers forked from a process that has only IMPORTED the library run first: sub-checks run in
        # this process (parallel=False) and their poison calls would otherwise have used the library here already
        order = sorted(range(len(mod.SUBCHECKS)), key=lambda i: (not getattr(mod.SUBCHECKS[i], 'fresh', False), i))
        for si in order:
            sub = mod.SUBCHECKS[si]
            ts = time.time()
            before = (total.cases, total.transitions, len(total.states), len(total.nontrivial))
            gen = sub.gen(tier, seed)
            if sub.parallel and jobs > 1:
                if getattr(sub, 'fresh', False):
                    use = mp.get_context('fork').Pool(jobs, maxtasksperchild=1)
                else:
                    if pool is None:
                        pool = mp.get_context('fork').Pool(jobs)
                    use = pool
                work = ((si, block) for block in _chunks(gen, sub.chunk))
                try:
                    for res in use.imap(_work, work, chunksize=1):
                        if 'error' in res:
                            raise HarnessError(res['error'])
                        total.merge(res)
                finally:
                    if use is not pool:
                        use.close()
                        use.join()
            else:
                for case in gen:
                    eval_one(sub, case, total)
            nt = len(total.nontrivial) - before[3]
            per_sub[sub.name] = {'cases': total.cases - before[0], 'transitions': total.transitions - before[1],
                                 'new_states': len(total.states) - before[2], 'nontrivial': nt,
                                 'wall_s': round(time.time() - ts, 2), 'floor': sub.floor}
            floor = sub.floor(tier) if callable(sub.floor) else sub.floor
            if nt < floor and not total.viol_count.get(sub.name):
                raise HarnessError('vacuity guard: sub-check %s evaluated only %d non-trivial cases (floor %d)'
                                   % (sub.name, nt, floor))
    finally:
        if pool is not None:
            pool.close()
            pool.join()
    wall = time.time() - t0
    return total, per_sub, wall, capped


# --------------------------------------------------------------------------------------
# reporting
# --------------------------------------------------------------------------------------
def write_replay(pid, v, idx):
    d = os.path.join(os.environ.get('VERIF_REPLAY_DIR') or os.path.join(HOME, 'replays'), pid)
    os.makedirs(d, exist_ok=True)
    name = '%s_%s_%02d.json' % (pid, v['subcheck'], idx)
    path = os.path.join(d, name)
    with open(path, 'w') as f:
        json.dump(v, f, indent=1, sort_keys=True)
    return path


def write_evidence(mod, tier, seed, total, per_sub, wall, n_viol, extra=None):
    pid = mod.PROPERTY
    outcomes = {}
    for (s, o), n in sorted(total.outcomes.items()):
        outcomes.setdefault(s, {})[str(o)] = n
    skipped = {}
    for (s, o), n in sorted(total.skipped.items()):
        skipped.setdefault(s, {})[str(o)] = n
    cov = {
        'states': len(total.states),
        'transitions': total.transitions,
        'traces_validated_against_impl': total.cases,
        'evaluations': total.cases,
        'distinct_nontrivial': len(total.nontrivial),
        'rule': getattr(mod, 'RULE', 'complete enumeration of the declared lattice / sequence space; a case is '
                                      'non-trivial when the implementation returned a value and the oracle '
                                      'comparison was evaluated; distinct by hash of (sub-check, case)'),
        'samples': total.samples[:40],
        'exhaustive': True,
        'bounds': mod.bounds(tier, seed) if hasattr(mod, 'bounds') else {},
        'per_subcheck': per_sub,
        'distinct_outcomes': outcomes,
        'skipped_domain': skipped,
        'max_deviation': {k: {'value': v[0], 'at': v[1]} for k, v in sorted(total.maxdev.items())},
        'known_findings_matched': {k: n for k, n in sorted(total.known.items())},
        'explanation': 'explicit enumeration on the real code: every case is one execution of the '
                       'implementation (trace), compared against an independent reference model',
    }
    if extra:
        cov.update(extra)
    ev = {
        'property_id': pid, 'tier': tier, 'seed': int(seed), 'level': 'model_checking',
        'coverage': cov,
        'assumptions': list(getattr(mod, 'ASSUMPTIONS', [])),
        'wall_s': round(wall, 2),
        'violations': int(n_viol),
    }
    path = os.path.join(os.environ.get('VERIF_EVIDENCE_DIR') or os.path.join(HOME, 'evidence'), pid + '.json')
    os.makedirs(os.path.dirname(path), exist_ok=True)
    try:
        import jsonschema
        with open('/root/.vp/EVIDENCE.schema.json') as f:
            schema = json.load(f)
        jsonschema.validate(ev, schema)
    except ImportError:
        pass
    except FileNotFoundError:
        pass
    tmp = path + '.tmp'
    with open(tmp, 'w') as f:
        json.dump(ev, f, indent=1, sort_keys=True)
    os.replace(tmp, path)
    return path
