"""Closed-form / exact oracles: geodetic<->Cartesian (mpmath), Helmert 7/14 + covariance (mpmath),
angle denotations (exact rationals)."""
from fractions import Fraction as F

import mpmath as mp

DPS = 40


def _m(x):
    if isinstance(x, mp.mpf):
        return x
    if isinstance(x, F):
        return mp.mpf(x.numerator) / mp.mpf(x.denominator)
    return mp.mpf(x)       # floats at their exact binary value; ints exact


# ---------------------------------------------------------------------------------------------
# geodetic <-> Cartesian
# ---------------------------------------------------------------------------------------------
def llh2xyz_mp(lat, lon, h, a, invf):
    """closed form; lat/lon in degrees (float values taken exactly)"""
    with mp.workdps(DPS):
        a, f = _m(a), 1 / _m(invf)
        e2 = f * (2 - f)
        phi, lam, h = mp.radians(_m(lat)), mp.radians(_m(lon)), _m(h)
        nu = a / mp.sqrt(1 - e2 * mp.sin(phi) ** 2)
        x = (nu + h) * mp.cos(phi) * mp.cos(lam)
        y = (nu + h) * mp.cos(phi) * mp.sin(lam)
        z = (nu * (1 - e2) + h) * mp.sin(phi)
        return x, y, z


def xyz2llh_mp(x, y, z, a, invf):
    """reference inverse (fixed point on latitude to convergence in 40 digits); requires p > 0"""
    with mp.workdps(DPS):
        a, f = _m(a), 1 / _m(invf)
        e2 = f * (2 - f)
        x, y, z = _m(x), _m(y), _m(z)
        p = mp.sqrt(x * x + y * y)
        lam = mp.atan2(y, x)
        phi = mp.atan2(z, p * (1 - e2))
        for _ in range(200):
            nu = a / mp.sqrt(1 - e2 * mp.sin(phi) ** 2)
            new = mp.atan2(z + e2 * nu * mp.sin(phi), p)
            if abs(new - phi) < mp.mpf(10) ** (-(DPS - 4)):
                phi = new
                break
            phi = new
        h = p * mp.cos(phi) + z * mp.sin(phi) - a * mp.sqrt(1 - e2 * mp.sin(phi) ** 2)
        return mp.degrees(phi), mp.degrees(lam), h


def dist3(p, q):
    with mp.workdps(DPS):
        return mp.sqrt(sum((_m(a) - _m(b)) ** 2 for a, b in zip(p, q)))


# ---------------------------------------------------------------------------------------------
# Helmert similarity transformation (Australian technical-manual convention)
# ---------------------------------------------------------------------------------------------
ARCSEC = None


def _arcsec():
    return mp.pi / 648000


def dec_str(x):
    """a parameter as the decimal number that was typed (repr of the float), exactly"""
    if isinstance(x, F):
        return x
    if isinstance(x, int):
        return F(x)
    return F(repr(float(x)))


def helmert_mp(xyz, par):
    """par = dict tx,ty,tz (m), sc (ppm), rx,ry,rz (arcsec) as Fractions/floats.
    Returns t + (1 + sc*1e-6) * R * x with R = [[1, rz, -ry], [-rz, 1, rx], [ry, -rx, 1]] (rotations in radians)."""
    with mp.workdps(DPS):
        x, y, z = (_m(v) for v in xyz)
        s = 1 + _m(par['sc']) / 1000000
        rx, ry, rz = (_m(par[k]) * _arcsec() for k in ('rx', 'ry', 'rz'))
        tx, ty, tz = (_m(par[k]) for k in ('tx', 'ty', 'tz'))
        X = tx + s * (x + rz * y - ry * z)
        Y = ty + s * (-rz * x + y + rx * z)
        Z = tz + s * (ry * x - rx * y + z)
        return X, Y, Z


def helmert_jacobian_mp(xyz, par):
    """analytic Jacobian of the same formula w.r.t. (x, y, z, s[unitless], rx, ry, rz [rad], tx, ty, tz): 3x10"""
    with mp.workdps(DPS):
        x, y, z = (_m(v) for v in xyz)
        s = 1 + _m(par['sc']) / 1000000
        rx, ry, rz = (_m(par[k]) * _arcsec() for k in ('rx', 'ry', 'rz'))
        J = mp.zeros(3, 10)
        R = mp.matrix([[1, rz, -ry], [-rz, 1, rx], [ry, -rx, 1]])
        for i in range(3):
            for j in range(3):
                J[i, j] = s * R[i, j]
        rot = R * mp.matrix([x, y, z])
        for i in range(3):
            J[i, 3] = rot[i]
        # d/d rx, ry, rz
        J[0, 4], J[1, 4], J[2, 4] = 0, s * z, -s * y
        J[0, 5], J[1, 5], J[2, 5] = -s * z, 0, s * x
        J[0, 6], J[1, 6], J[2, 6] = s * y, -s * x, 0
        J[0, 7] = J[1, 8] = J[2, 9] = 1
        return J


def helmert_jacobian_fd(xyz, par):
    """the same Jacobian by high-precision central differences of helmert_mp (no hand-typed derivative)"""
    with mp.workdps(60):
        cols = []
        base = {k: _m(par[k]) for k in ('tx', 'ty', 'tz', 'sc', 'rx', 'ry', 'rz')}
        pt = [_m(v) for v in xyz]
        hstep = mp.mpf(10) ** -20

        def f(pt_, par_):
            old = globals()['DPS']
            return mp.matrix(helmert_mp(pt_, par_))
        for j in range(3):
            a = list(pt)
            b = list(pt)
            a[j] += hstep
            b[j] -= hstep
            cols.append((f(a, base) - f(b, base)) / (2 * hstep))
        # scale: unitless = ppm * 1e-6
        pa, pb = dict(base), dict(base)
        pa['sc'] += hstep * 1000000
        pb['sc'] -= hstep * 1000000
        cols.append((f(pt, pa) - f(pt, pb)) / (2 * hstep))
        for k in ('rx', 'ry', 'rz'):
            pa, pb = dict(base), dict(base)
            pa[k] += hstep / _arcsec()
            pb[k] -= hstep / _arcsec()
            cols.append((f(pt, pa) - f(pt, pb)) / (2 * hstep))
        for k in ('tx', 'ty', 'tz'):
            pa, pb = dict(base), dict(base)
            pa[k] += hstep
            pb[k] -= hstep
            cols.append((f(pt, pa) - f(pt, pb)) / (2 * hstep))
        J = mp.zeros(3, 10)
        for j, c in enumerate(cols):
            for i in range(3):
                J[i, j] = c[i]
        return J


def helmert_cov_mp(xyz, par, vcv, sd):
    """J Q J^T with Q = diag-block(vcv, var(s), var(rx,ry,rz) [rad^2], var(tx,ty,tz)).
    sd = dict sd_sc (ppm), sd_rx.. (arcsec), sd_tx.. (m)."""
    with mp.workdps(DPS):
        J = helmert_jacobian_mp(xyz, par)
        Q = mp.zeros(10, 10)
        for i in range(3):
            for j in range(3):
                Q[i, j] = _m(vcv[i][j])
        Q[3, 3] = (_m(sd['sd_sc']) / 1000000) ** 2
        for i, k in enumerate(('sd_rx', 'sd_ry', 'sd_rz')):
            Q[4 + i, 4 + i] = (_m(sd[k]) * _arcsec()) ** 2
        for i, k in enumerate(('sd_tx', 'sd_ty', 'sd_tz')):
            Q[7 + i, 7 + i] = _m(sd[k]) ** 2
        return J * Q * J.T


def helmert_selfcheck():
    par = {'tx': F('0.06155'), 'ty': F('-0.01087'), 'tz': F('-0.04019'), 'sc': F('-0.009994'),
           'rx': F('-0.0394924'), 'ry': F('-0.0327221'), 'rz': F('-0.0328979')}
    pt = (-4052051.7643, 4212836.2017, -2545106.0245)
    with mp.workdps(DPS):
        Ja, Jf = helmert_jacobian_mp(pt, par), helmert_jacobian_fd(pt, par)
        worst = mp.mpf(0)
        for i in range(3):
            for j in range(10):
                den = max(abs(Ja[i, j]), mp.mpf(1))
                worst = max(worst, abs(Ja[i, j] - Jf[i, j]) / den)
        return {'jacobian_analytic_vs_fd_rel': float(worst), 'ok': bool(worst < mp.mpf(10) ** -12)}


# ---------------------------------------------------------------------------------------------
# angle denotations: exact arc-seconds as a Fraction
# ---------------------------------------------------------------------------------------------
def hp_fields(hp, nd=13):
    """reads an HP float through its nd-decimal string: (sign, deg, min, sec Fraction, valid)"""
    s = '%.*f' % (nd, abs(hp))
    ip, fp = s.split('.')
    deg = int(ip)
    mn = int(fp[:2])
    sec = F(int(fp[2:]), 10 ** (nd - 4))
    valid = mn < 60 and sec < 60
    neg = hp < 0 or (hp == 0 and str(hp).startswith('-'))
    return (-1 if neg else 1), deg, mn, sec, valid


def hp_arcsec(hp, nd=13):
    sg, d, m, s, valid = hp_fields(hp, nd)
    return sg * (d * 3600 + m * 60 + s), valid


if __name__ == '__main__':
    print(helmert_selfcheck())
