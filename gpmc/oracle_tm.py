"""Exact Transverse Mercator (Gauss-Krueger) by its definition, independent of Krueger's series.

  psi(phi)   = asinh(tan phi) - e atanh(e sin phi)                 isometric latitude
  zeta       = psi(phi) + i dlam
  phi_c      : psi(phi_c) = zeta   (analytic continuation; fixed point phi_c <- gd(zeta + e atanh(e sin phi_c)))
  N' + i E'  = k0 M(phi_c),  M(p) = a(1-e^2) int_0^p (1 - e^2 sin^2 t)^(-3/2) dt   (straight complex path,
               Gauss-Legendre quadrature)
  dz/dzeta   = k0 a cos(phi_c)/sqrt(1 - e^2 sin^2 phi_c)
  k          = |dz/dzeta| / (nu cos phi),   gamma = arg(dz/dzeta)    (grid bearing = azimuth + gamma)

Two evaluations of the same definition are provided: float64/complex128 numpy (vectorised, used for the
dense lattices, ~1e-9 m) and mpmath (30+ digits, used on the structural sub-lattice and to validate the
float64 one at run time).  M is additionally cross-checked against an adaptive mp.quad of the same integrand
and against the closed elliptic-integral form on the real axis (selfcheck()).
"""
import math

import numpy as np

try:
    import mpmath as mp
except ImportError:  # pragma: no cover
    mp = None

_GL = {}


def _gl(n):
    if n not in _GL:
        x, w = np.polynomial.legendre.leggauss(n)
        _GL[n] = (0.5 * (x + 1.0), 0.5 * w)
    return _GL[n]


def ell_consts(a, invf):
    f = 1.0 / invf
    e2 = f * (2.0 - f)
    return a, f, e2, math.sqrt(e2)


# ------------------------------------------------------------------------------ numpy
def _phic_np(zeta, e):
    phic = np.arctan(np.sinh(zeta))
    for _ in range(14):
        phic = np.arctan(np.sinh(zeta + e * np.arctanh(e * np.sin(phic))))
    return phic


def _M_np(phic, a, e2, n=40):
    u, w = _gl(n)
    t = phic[..., None] * u
    s = np.sin(t)
    g = (1.0 - e2 * s * s) ** -1.5
    return a * (1.0 - e2) * phic * np.sum(g * w, axis=-1)


def forward_np(lat, dlon, a, invf, k0=1.0):
    """lat, dlon in degrees (arrays).  Returns (north', east', k, gamma_deg) relative to equator/CM."""
    with np.errstate(all='ignore'):
        return _forward_np(lat, dlon, a, invf, k0)


def _forward_np(lat, dlon, a, invf, k0=1.0):
    a, f, e2, e = ell_consts(a, invf)
    phi = np.radians(np.asarray(lat, dtype=float))
    dl = np.radians(np.asarray(dlon, dtype=float))
    psi = np.arcsinh(np.tan(phi)) - e * np.arctanh(e * np.sin(phi))
    zeta = psi + 1j * dl
    phic = _phic_np(zeta, e)
    z = k0 * _M_np(phic, a, e2)
    d = k0 * a * np.cos(phic) / np.sqrt(1.0 - e2 * np.sin(phic) ** 2)
    nu_cos = a * np.cos(phi) / np.sqrt(1.0 - e2 * np.sin(phi) ** 2)
    k = np.abs(d) / nu_cos
    gam = np.degrees(np.angle(d))
    return z.real, z.imag, k, gam


def inverse_np(north, east, a, invf, k0=1.0):
    """north/east relative to equator/CM (metres).  Returns (lat_deg, dlon_deg, k, gamma_deg)."""
    with np.errstate(all='ignore'):
        return _inverse_np(north, east, a, invf, k0)


def _inverse_np(north, east, a, invf, k0=1.0):
    a_, f, e2, e = ell_consts(a, invf)
    zt = (np.asarray(north, dtype=float) + 1j * np.asarray(east, dtype=float))
    w = zt / (k0 * a_)
    zeta = np.arcsinh(np.tan(w))
    for _ in range(12):
        phic = _phic_np(zeta, e)
        z = k0 * _M_np(phic, a_, e2)
        d = k0 * a_ * np.cos(phic) / np.sqrt(1.0 - e2 * np.sin(phic) ** 2)
        zeta = zeta - (z - zt) / d
    psi = zeta.real
    phi = np.arctan(np.sinh(psi))
    for _ in range(14):
        phi = np.arctan(np.sinh(psi + e * np.arctanh(e * np.sin(phi))))
    lat = np.degrees(phi)
    dlon = np.degrees(zeta.imag)
    nb, eb, k, gam = _forward_np(lat, dlon, a, invf, k0)
    # the Newton iteration may land on another sheet of the analytic continuation (grid points that lie beyond a pole:
    # |northing| larger than the quarter meridian).  Such a root does not reproduce the grid point through the REAL forward
    # mapping and is reported as NaN (outside the domain) instead of a plausible-looking latitude.
    bad = ~(np.abs((nb + 1j * eb) - zt) <= 1e-6)
    lat = np.where(bad, np.nan, lat)
    dlon = np.where(bad, np.nan, dlon)
    return lat, dlon, k, gam


# ------------------------------------------------------------------------------ mpmath
def _mpf(x):
    # floats are taken at their exact binary value
    return mp.mpf(x)


def _phic_mp(zeta, e):
    phic = mp.atan(mp.sinh(zeta))
    for _ in range(60):
        new = mp.atan(mp.sinh(zeta + e * mp.atanh(e * mp.sin(phic))))
        if abs(new - phic) < mp.mpf(10) ** (-(mp.mp.dps - 3)):
            phic = new
            break
        phic = new
    return phic


_GLMP = {}


def _gl_mp(n):
    key = (n, mp.mp.dps)
    if key not in _GLMP:
        # nodes of Legendre P_n by Newton from the float64 nodes
        x0, _ = np.polynomial.legendre.leggauss(n)
        xs, ws = [], []
        for x in x0:
            x = mp.mpf(float(x))
            for _ in range(6):
                p0, p1 = mp.mpf(1), x
                for k in range(2, n + 1):
                    p0, p1 = p1, ((2 * k - 1) * x * p1 - (k - 1) * p0) / k
                dp = n * (x * p1 - p0) / (x * x - 1)
                x = x - p1 / dp
            p0, p1 = mp.mpf(1), x
            for k in range(2, n + 1):
                p0, p1 = p1, ((2 * k - 1) * x * p1 - (k - 1) * p0) / k
            dp = n * (x * p1 - p0) / (x * x - 1)
            xs.append((x + 1) / 2)
            ws.append(1 / ((1 - x * x) * dp * dp))
        _GLMP[key] = (xs, ws)
    return _GLMP[key]


def _M_mp(phic, a, e2, n=64):
    xs, ws = _gl_mp(n)
    tot = mp.mpc(0)
    for u, w in zip(xs, ws):
        s = mp.sin(phic * u)
        tot += w * (1 - e2 * s * s) ** mp.mpf(-1.5)
    return a * (1 - e2) * phic * tot


def forward_mp(lat, dlon, a, invf, k0=1.0, dps=34):
    """scalars in degrees; returns mp values (north', east', k, gamma_deg)"""
    old = mp.mp.dps
    mp.mp.dps = dps
    try:
        a = _mpf(a)
        f = 1 / _mpf(invf)
        e2 = f * (2 - f)
        e = mp.sqrt(e2)
        k0 = _mpf(k0)
        phi = mp.radians(_mpf(lat))
        dl = mp.radians(_mpf(dlon))
        psi = mp.asinh(mp.tan(phi)) - e * mp.atanh(e * mp.sin(phi))
        zeta = mp.mpc(psi, dl)
        phic = _phic_mp(zeta, e)
        z = k0 * _M_mp(phic, a, e2)
        d = k0 * a * mp.cos(phic) / mp.sqrt(1 - e2 * mp.sin(phic) ** 2)
        nu_cos = a * mp.cos(phi) / mp.sqrt(1 - e2 * mp.sin(phi) ** 2)
        k = abs(d) / nu_cos
        gam = mp.degrees(mp.arg(d))
        return z.real, z.imag, k, gam
    finally:
        mp.mp.dps = old


def selfcheck():
    """run-time validation of the oracle: (1) mp Gauss-Legendre M vs adaptive mp.quad of the same integrand
    on complex end points, (2) M on the real axis vs the elliptic-integral closed form
    a[E(phi|e2) - e2 sin phi cos phi / sqrt(1-e2 sin^2 phi)], (3) float64 vs mp forward on a sub-lattice,
    (4) sign of gamma against a finite difference of the oracle's own image of the meridian."""
    out = {}
    old = mp.mp.dps
    mp.mp.dps = 34
    try:
        worst1 = worst2 = mp.mpf(0)
        for invf in (150.0, 298.257222101, 400.0):
            a = mp.mpf(6378137)
            f = 1 / mp.mpf(invf)
            e2 = f * (2 - f)
            for p in (mp.mpc(0.3, 0.2), mp.mpc(1.2, -0.5), mp.mpc(-1.45, 0.55), mp.mpc(0, 0.5), mp.mpc(1.466, 0)):
                m1 = _M_mp(p, a, e2)
                m2 = a * (1 - e2) * mp.quad(lambda u: p * (1 - e2 * mp.sin(p * u) ** 2) ** mp.mpf(-1.5), [0, 0.5, 1])
                worst1 = max(worst1, abs(m1 - m2))
            for ph in (0.1, 0.7, 1.3, 1.466, -1.39):
                ph = mp.mpf(ph)
                m1 = _M_mp(mp.mpc(ph, 0), a, e2).real
                m3 = a * (mp.ellipe(ph, e2) - e2 * mp.sin(ph) * mp.cos(ph) / mp.sqrt(1 - e2 * mp.sin(ph) ** 2))
                worst2 = max(worst2, abs(m1 - m3))
        out['gl_vs_quad_m'] = float(worst1)
        out['gl_vs_elliptic_m'] = float(worst2)
    finally:
        mp.mp.dps = old
    worst3 = 0.0
    worstk = worstg = 0.0
    for (a, invf) in ((6378137.0, 298.257222101), (6.3e6, 150.0), (6.4e6, 400.0)):
        for lat in (-80.0, -45.0, -1e-9, 0.0, 33.0, 84.0):
            for dl in (-30.0, -3.0, 0.0, 1e-6, 3.0, 30.0):
                n1, e1, k1, g1 = forward_np(np.array([lat]), np.array([dl]), a, invf, 0.9996)
                n2, e2_, k2, g2 = forward_mp(lat, dl, a, invf, 0.9996)
                worst3 = max(worst3, abs(float(n2) - n1[0]), abs(float(e2_) - e1[0]))
                worstk = max(worstk, abs(float(k2) - k1[0]))
                worstg = max(worstg, abs(float(g2) - g1[0]))
    out['np_vs_mp_m'] = worst3
    out['np_vs_mp_k'] = worstk
    out['np_vs_mp_gamma_deg'] = worstg
    # sign: image of a short northward step along the meridian; its grid bearing must equal gamma
    lat, dl = -33.0, 2.0
    n0, e0, k, g = forward_np(np.array([lat]), np.array([dl]), 6378137.0, 298.257222101, 0.9996)
    n1, e1, _, _ = forward_np(np.array([lat + 1e-5]), np.array([dl]), 6378137.0, 298.257222101, 0.9996)
    fd = math.degrees(math.atan2(e1[0] - e0[0], n1[0] - n0[0]))
    out['gamma_sign_fd_diff_deg'] = abs(fd - g[0])
    # round trip of the oracle's own inverse
    la, dlo, _, _ = inverse_np(n0, e0, 6378137.0, 298.257222101, 0.9996)
    out['inverse_roundtrip_deg'] = max(abs(la[0] - lat), abs(dlo[0] - dl))
    ok = (out['gl_vs_quad_m'] < 1e-15 and out['gl_vs_elliptic_m'] < 1e-15 and out['np_vs_mp_m'] < 2e-8
          and out['np_vs_mp_k'] < 1e-13 and out['np_vs_mp_gamma_deg'] < 1e-12 and out['gamma_sign_fd_diff_deg'] < 1e-6
          and out['inverse_roundtrip_deg'] < 1e-12)
    out['ok'] = bool(ok)
    return out


if __name__ == '__main__':
    import json
    print(json.dumps(selfcheck(), indent=1))
