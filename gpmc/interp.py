"""Interpreter modes as a dimension.  A property holds in every way the interpreter may legitimately be started: with
assertions compiled away (python -O / -OO / PYTHONOPTIMIZE) and with any string-hash seed (PYTHONHASHSEED, which the
checks otherwise pin to 0 for reproducibility).  A library whose input validation is written with `assert`, or whose
catalogue of constants is assembled by iterating over a set of names, behaves differently there.

A probe (digest of representative results of the property's API, incl. rejection outcomes) is computed in a FRESH
interpreter per mode; every mode's digest must equal the digest of the reference mode (plain interpreter, hash seed 0).
The probe is exhaustive over the declared mode list; it is not a sample of hash seeds: the seed list is fixed.
"""
import hashlib
import json
import os
import subprocess
import sys

MODES = [('plain-seed0', [], {'PYTHONHASHSEED': '0'}), ('-O', ['-O'], {'PYTHONHASHSEED': '0'}), ('-OO', ['-OO'], {'PYTHONHASHSEED': '0'}),
         ('PYTHONOPTIMIZE=1', [], {'PYTHONHASHSEED': '0', 'PYTHONOPTIMIZE': '1'})] + \
        [('hashseed-%d' % s, [], {'PYTHONHASHSEED': str(s)}) for s in (1, 2, 3, 4, 5, 6, 7, 8, 9, 10, 11, 12, 101, 4242, 65535)] + \
        [('hashseed-random', [], {'PYTHONHASHSEED': 'random'})]


def _out(fn):
    from gpmc import cfg
    try:
        return ['ok', repr(cfg.flat(fn()))]
    except Exception as e:
        return ['raise', type(e).__name__]


def probe(pid):
    """list of (label, outcome) — runs inside the fresh interpreter"""
    import datetime
    import numpy as np
    from gpmc import callforms
    import geodepy.constants as gc
    import geodepy.angles as ga
    out = []
    try:
        cs = callforms.calls(pid)
    except Exception as e:
        cs = []
        out.append(['callforms:construction', ['raise', type(e).__name__]])
    for label, key, fn, args in cs:
        out.append([key + ':' + label, _out(lambda: (lambda r: vars(r) if hasattr(r, '__dict__') and not isinstance(r, np.ndarray) else r)(fn(*args)))])
    if pid in ('C08', 'C12', 'C20'):
        # rejection lattice: HP values with a minutes / seconds field of 60..99 (and valid neighbours)
        for d in (0, 1, 59, 123, 359):
            for mm, ss in ((60, 0), (75, 30), (99, 59), (0, 60), (30, 75), (59, 99), (59, 59), (0, 0), (30, 30)):
                for sg in (1.0, -1.0):
                    x = sg * float('%d.%02d%02d' % (d, mm, ss))
                    for nm, f in (('hp2dec', ga.hp2dec), ('HPAngle', ga.HPAngle), ('hp2deca', ga.hp2deca), ('hp2rad', ga.hp2rad), ('hp2gon', ga.hp2gon),
                                  ('hp2dms', ga.hp2dms), ('hp2ddm', ga.hp2ddm)):
                        out.append(['%s(%r)' % (nm, x), _out(lambda: repr(f(x)))])
        for v in (-33.99999999999, 0.5, 359.999999999, -0.0001):
            for nm, f in (('dec2hp', ga.dec2hp), ('dec2dms', ga.dec2dms), ('dec2ddm', ga.dec2ddm), ('dec2gon', ga.dec2gon)):
                out.append(['%s(%r)' % (nm, v), _out(lambda: repr(f(v)))])
    if pid in ('C09', 'C11', 'C06', 'C07'):
        # the complete catalogue of shipped constants as this interpreter built it
        for n in sorted(vars(gc)):
            v = getattr(gc, n)
            if isinstance(v, (gc.Transformation, gc.TransformationSD, gc.Ellipsoid, gc.Projection)):
                d = dict(vars(v))
                if isinstance(d.get('tf_sd'), gc.TransformationSD):
                    d['tf_sd'] = sorted(vars(d['tf_sd']).items())
                out.append(['const:' + n, ['ok', repr(sorted((k, repr(x)) for k, x in d.items()))]])
    if pid == 'C17':
        from gpmc.checks import c17
        from geodepy.ntv2reader import read_ntv2_file, interpolate_ntv2
        for lid in ('nested-biquadratic', 'two-children-linear', 'child-first'):
            path = c17.materialise(c17.layout_by_id(lid), 'interp')[0]
            g = read_ntv2_file(path)
            out.append(['ntv2:' + lid, _out(lambda: [sorted(g.subgrids)] + [interpolate_ntv2(g, la, lo, m) for la, lo in ((-29.5, 149.4), (-29.9, 149.9), (45.1, -75.2))
                                                                                for m in ('bilinear', 'bicubic')])])
            os.remove(path)
    if pid == 'C18':
        from gpmc.checks import c18
        from gpmc import snxgen
        import geodepy.gnss as gn
        for cfg_ in ({'nstn': 3, 'soln': 1, 'vel': True, 'tri': 'L'}, {'nstn': 4, 'soln': 2, 'vel': False, 'tri': 'U', 'extra': True}):
            m, path, p_in = c18.make(cfg_)
            c18.set_clock(c18.DEFAULT_CLOCK)
            for op, f in (('remove', lambda: gn.remove_stns_sinex(path, [snxgen.codes(cfg_['nstn'])[1]])),
                          ('velocity', lambda: gn.remove_velocity_sinex(path)), ('zeros', lambda: gn.remove_matrixzeros_sinex(path))):
                if op == 'velocity' and not cfg_['vel']:
                    continue

                def run():
                    f()
                    return hashlib.sha256('\n'.join(c18.normalise(open('output.snx').read().split('\n'))).encode()).hexdigest()
                out.append(['sinex:%s:%d' % (op, cfg_['nstn']), _out(run)])
            out.append(['sinex:read:%d' % cfg_['nstn'], _out(lambda: [gn.read_sinex_estimate(path), gn.read_sinex_matrix(path), gn.read_sinex_sites(path)])])
    if pid == 'C20':
        from api.app import app
        c = app.test_client()
        for url in ('/', '/vincinv?lat1=-37.57037203&lon1=144.25295244&lat2=-37.39101561&lon2=143.55353839&from_angle_type=dms&to_angle_type=dms',
                    '/vincdir?lat1=-37.95103342&lon1=144.42486789&azimuth1to2=306.8681592&ell_dist=54972.271',
                    '/vincdir?lat1=10.6000&lon1=20.15&azimuth1to2=90.75&ell_dist=1000&from_angle_type=dms', '/vincinv?lat1=0&lon1=0&lat2=0.7000&lon2=1&from_angle_type=dms'):
            out.append(['api:' + url[:40], _out(lambda: (lambda r: [r.status_code, r.data.decode('latin1')])(c.get(url)))])
    return out


def main(pid):
    res = probe(pid)
    sys.stdout.write('PROBE ' + json.dumps(res) + '\n')


def run_mode(pid, mode):
    """executes the probe of pid in a fresh interpreter started in the given mode; returns the list of [label, outcome]"""
    from gpmc.core import REPO, HOME
    name, flags, env = mode
    e = dict(os.environ)
    e.pop('PYTHONOPTIMIZE', None)
    e.update(env)
    e['PYTHONPATH'] = os.pathsep.join([REPO, HOME, os.path.join(HOME, '.deps')])
    e['VERIF_REPO'] = REPO
    code = 'import sys; sys.path.insert(0, %r); from gpmc import interp; interp.main(%r)' % (REPO, pid)
    r = subprocess.run([sys.executable, '-W', 'ignore'] + flags + ['-c', code], cwd=REPO, env=e, capture_output=True, text=True, timeout=600)
    lines = [ln for ln in r.stdout.splitlines() if ln.startswith('PROBE ')]
    if r.returncode != 0 or not lines:
        return None, (r.stderr or r.stdout)[-1500:]
    return json.loads(lines[-1][6:]), None


def make(pid, site):
    ref = {}

    def gen(tier, seed):
        for m in MODES[1:]:
            yield {'mode': m[0]}

    def ev(case, rec):
        from gpmc.core import HarnessError
        mode = [m for m in MODES if m[0] == case['mode']][0]
        if 'v' not in ref:
            ref['v'], err = run_mode(pid, MODES[0])
            if ref['v'] is None:
                raise HarnessError('interpreter probe failed in the reference mode: %s' % err)
            if len(ref['v']) < 2:
                raise HarnessError('interpreter probe of %s is empty' % pid)
        got, err = run_mode(pid, mode)
        rec.transitions += len(ref['v'])
        rec.nontriv((pid, case['mode']))
        if got is None:
            rec.fail('the library cannot be imported / used in an interpreter started with %s' % case['mode'], site=site + ':interpreter',
                     observed=err, case=case)
            return
        rec.state(('interp', case['mode'], hashlib.sha256(json.dumps(got).encode()).hexdigest()[:16]))
        diff = [(a[0], a[1], b[1]) for a, b in zip(ref['v'], got) if a != b]
        if diff or len(got) != len(ref['v']):
            lab, want, have = diff[0] if diff else ('length', len(ref['v']), len(got))
            rec.fail('in an interpreter started with %s the call %s behaves differently from a plain interpreter (%d of %d probe calls differ)'
                     % (case['mode'], lab, len(diff), len(ref['v'])), site=site + ':interpreter',
                     observed=str(have)[:300], expected=str(want)[:300], case=case, coords={'mode': case['mode'], 'call': lab})
            rec.outcome('interp-bad')
        else:
            rec.outcome('interp-ok')
        rec.sample({'mode': case['mode'], 'probe_calls': len(ref['v'])})
    return gen, ev
