"""Shared enumeration of Transverse-Mercator states for C01 / C02 / C10.

A *row* case is  {ell, prj, zone (0 = automatic), lat, lons: [...], kind}.  Rows keep the oracle
vectorised (one numpy evaluation per row) while every (lat, lon) in the row is one real call of the
implementation.  A violation is reported with a single-longitude row as its replay case.
"""
import math
import warnings

import numpy as np

from geodepy.convert import geo2grid, grid2geo
from gpmc import cfg, oracle_tm
from gpmc.cfg import ELLS, PRJS, ELL_AF, PRJ_PAR, cm_of, uniq, fill

warnings.simplefilter('ignore', UserWarning)   # 'ISG projection should be used with ANS ellipsoid'

OFFSETS = [0.0, 1e-9, -1e-9, 1e-6, -1e-6, 0.5, -0.5, 1.0, -1.0, 3.0, -3.0, 6.0, -6.0, 10.0, -10.0,
           20.0, -20.0, 30.0, -30.0,
           # between 'on the central meridian' and a micro-degree: 1-2-5 steps (a longitude 'close to' the central meridian is
           # not ON it: 1e-7 deg is 11 mm of easting)
           2e-9, -5e-9, 1e-8, -2e-8, 5e-8, -1e-7, 1.5e-7, -2e-7, 5e-7]


def lat_of_conformal(chi_deg, invf):
    """geodetic latitude whose conformal latitude is chi (bisection on the closed form, exact to the last bits)"""
    f = 1.0 / invf
    e = math.sqrt(f * (2.0 - f))
    chi = math.radians(chi_deg)

    def conf(phi):
        s = math.sin(phi)
        return math.atan(math.sinh(math.asinh(math.tan(phi)) - e * math.atanh(e * s)))
    lo, hi = chi, min(math.pi / 2 - 1e-12, chi + 0.01) if chi >= 0 else chi
    if chi < 0:
        return -lat_of_conformal(-chi_deg, invf)
    for _ in range(200):
        mid = 0.5 * (lo + hi)
        if conf(mid) < chi:
            lo = mid
        else:
            hi = mid
    return math.degrees(0.5 * (lo + hi))


def special_rows(ell, prj, zones):
    """positions whose Gauss-Schreiber ratio xi' is EXACTLY one of the zeros of cos(2 r xi') (r = 1, 2, 3: 45; 22.5, 67.5; 15, 75 deg),
    on and off the central meridian: the leading term of a series in cos(2 r xi') vanishes there while the later terms do not"""
    a, invf = ELL_AF[ell]
    out = []
    for t in (15.0, 22.5, 45.0, 67.5, 75.0):
        for dl in (0.0, 0.5, 3.0, 10.0):
            chi = math.degrees(math.atan(math.tan(math.radians(t)) * math.cos(math.radians(dl))))
            lat = lat_of_conformal(chi, invf)
            for sg in (1.0, -1.0):
                if -80.0 <= sg * lat <= 84.0:
                    out.append((sg * lat, dl))
    return out


def auto_lons(prj, tier, seed):
    fe, fn, k0, zw, icm = PRJ_PAR[prj]
    out = []
    if prj in ('isg', 'isg2'):
        for z, cm in cfg.ISG_CM.items():
            for d in (0.0, 1e-9, -1e-9, 1e-6, -1e-6, 0.5, -0.5, 0.999999, -0.999999, -1.0):
                out.append(cm + d)
        step = 0.5 if tier == 'quick' else 0.125
        out += [x for x in fill(138.0, 156.0 - 1e-9, step, seed, 2)]
        out += [x for x in fill(158.0, 160.0 - 1e-9, step, seed, 3)]
        out = [x for x in out if (138.0 <= x < 156.0) or (158.0 <= x < 160.0)]
        return uniq(out)
    lo = icm - 0.5 * zw          # western edge of zone 1
    nz = cfg.n_zones(prj)
    hi = min(180.0, lo + nz * zw)
    for k in range(nz + 1):
        b = lo + k * zw
        for d in (0.0, 1e-9, -1e-9, 1e-6, -1e-6):
            out.append(b + d)
    for k in range(nz):
        cm = icm + k * zw
        for d in (0.0, 1e-9, -1e-9, 1e-6, -1e-6):
            out.append(cm + d)
    step = 6.0 if tier == 'quick' else 1.5
    out += fill(lo + 0.7, hi, step, seed, 4)
    out += [-180.0, 180.0 - 1e-6, lo, hi - 1e-6]
    out += [1.5, 4.5, 7.5, 10.5, 13.5, 19.5, 22.5, 31.5, 34.5, 40.5]      # inside / between the irregular-zone windows of the UTM system
    # statement: lon in [-180, 180); zones beyond 60 are outside the API's domain (3-degree layout)
    out = [x for x in out if -180.0 <= x < 180.0 and lo <= x < hi - 1e-12]
    return uniq(out)


def explicit_zones(prj, tier):
    if prj == 'isg':
        return sorted(cfg.ISG_CM)
    if prj == 'isg2':
        return []          # automatic zone only: the zone numbering of a copy is not part of the claim
    nz = cfg.n_zones(prj)
    if tier == 'thorough':
        return list(range(1, nz + 1))
    return sorted({z for z in [1, 2, 30, 31, 32, 33, 35, 37, 55, 59, 60] if z <= nz} | {nz, max(1, nz // 2)})


def gen_rows(tier, seed, configs=None, kinds=True, lat_fn=None):
    lats = (lat_fn or cfg.lat_lattice_tm)(tier, seed)
    for ell, prj in (configs or cfg.TM_CONFIGS):
        al = auto_lons(prj, tier, seed)
        for lat in lats:
            yield {'ell': ell, 'prj': prj, 'zone': 0, 'lat': lat, 'lons': al, 'kind': 'float'}
        for z in explicit_zones(prj, tier):
            cm = cm_of(prj, z)
            # offsets are taken the short way round: zone 1 with a longitude of +173 deg is 10 deg west of its central meridian
            lons = uniq([cm + d if -180.0 <= cm + d <= 180.0 else ((cm + d + 180.0) % 360.0) - 180.0 for d in OFFSETS])
            for lat in lats:
                yield {'ell': ell, 'prj': prj, 'zone': z, 'lat': lat, 'lons': lons, 'kind': 'float'}
        # the parallels on which the first terms of the series in cos(2 r xi') vanish (per ellipsoid), explicit zone and automatic
        if prj not in ('isg2',):
            zs = explicit_zones(prj, 'quick')[:2] if prj != 'isg' else [561]
            for z in zs:
                cm = cm_of(prj, z)
                for lat, dl in special_rows(ell, prj, zs):
                    lons = [x for x in uniq([cm + dl, cm - dl]) if -180.0 <= x <= 180.0]
                    if lons:
                        yield {'ell': ell, 'prj': prj, 'zone': z, 'lat': lat, 'lons': lons, 'kind': 'float'}
    if kinds:
        # angle-class inputs: a sub-lattice through every class (result must equal the float call at obj.dec())
        for ell, prj, lons in (('grs80', 'utm', [-179.25, -71.5, -0.45, 0.0, 0.3, 133.882]), ('ans', 'isg', [151.2, 141.000001])):
            for lat in (-79.99, -33.5, -0.3, 0.0, 0.15, 45.0, 83.75):
                for kind in cfg.INTYPES[1:] + cfg.NUMFORMS:
                    yield {'ell': ell, 'prj': prj, 'zone': 0, 'lat': lat, 'lons': lons, 'kind': kind}


def single(case, lon):
    c = dict(case)
    c['lons'] = [lon]
    return c


def forward_row(case, rec):
    """executes geo2grid on every longitude of the row; returns list of dicts (or None where the
    call was outside the domain / the input object could not be built) plus the oracle arrays."""
    ell, prj = cfg.ell_obj(case['ell']), PRJS[case['prj']]
    a, invf = ELL_AF[case['ell']]
    fe, fn, k0, zw, icm = PRJ_PAR[case['prj']]
    lat = case['lat']
    kind = case.get('kind', 'float')
    res = []
    for lon in case['lons']:
        if kind == 'float':
            la, lo = lat, lon
        else:
            try:
                la, lo = cfg.as_type(lat, kind), cfg.as_type(lon, kind)
            except Exception:
                rec.skip('input object of class %s could not be built (C08)' % kind)
                res.append(None)
                continue
        st, r = rec.call(geo2grid, cfg.unwrap(la), cfg.unwrap(lo), case['zone'], ell, prj)
        if st != 'ok':
            rec.fail('geo2grid raised on a position inside its domain', site='convert:geo2grid', observed=r,
                     case=single(case, lon), coords={'lat': lat, 'lon': lon})
            res.append(None)
            continue
        hemi, zone, east, north, psf, gc_ = r
        d = {'lon': lon, 'hemi': hemi, 'zone': zone, 'east': east, 'north': north, 'psf': psf, 'gc': gc_, 'la': la, 'lo': lo}
        if kind != 'float':
            d['latf'], d['lonf'] = la.dec(), lo.dec()
        else:
            d['latf'], d['lonf'] = lat, lon
        res.append(d)
    idx = [i for i, d in enumerate(res) if d is not None]
    if not idx:
        return res, None
    bad_zone = False
    cms = []
    for i in idx:
        try:
            if case['prj'] == 'isg2':
                cmc = cfg.nearest_cm('isg2', res[i]['lonf'])
                dd = res[i]['lonf'] - cmc
                # exactly on a zone boundary both neighbouring meridians qualify: take the one the result was computed about
                if abs(abs(dd) - zw / 2) < 1e-9 and (res[i]['east'] - fe) * dd < 0:
                    cmc += 2 * dd
                cms.append(cmc)
            else:
                cms.append(cm_of(case['prj'], res[i]['zone']))
        except KeyError:
            cms.append(float('nan'))
    lats = np.array([res[i]['latf'] for i in idx])
    dl = np.array([res[i]['lonf'] for i in idx]) - np.array(cms)
    dl = np.where(np.abs(dl) > 180.0, (dl + 180.0) % 360.0 - 180.0, dl)      # the short way round across the 180-degree meridian
    n_, e_, k_, g_ = oracle_tm.forward_np(lats, dl, a, invf, k0)
    for j, i in enumerate(idx):
        d = res[i]
        d['cm'] = cms[j]
        d['o_e'] = fe + float(e_[j])
        d['o_n'] = (fn if d['latf'] < 0 else 0.0) + float(n_[j])
        d['o_k'] = float(k_[j])
        d['o_g'] = float(g_[j])
    return res, idx
