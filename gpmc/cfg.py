"""Shared configuration lattices: ellipsoids, projections, angle input types, lattice builders."""
import copy as _copy
import math

import numpy as np

import geodepy.constants as gc
import geodepy.angles as ga
from gpmc.core import seed_phase

# ---- ellipsoids -----------------------------------------------------------------------------
ELLS = {
    'grs80': gc.grs80, 'wgs84': gc.wgs84, 'ans': gc.ans, 'intl24': gc.intl24,
    'e63_150': gc.Ellipsoid(6.3e6, 150.0), 'e63_400': gc.Ellipsoid(6.3e6, 400.0),
    'e64_150': gc.Ellipsoid(6.4e6, 150.0), 'e64_400': gc.Ellipsoid(6.4e6, 400.0),
    'e635_275': gc.Ellipsoid(6.35e6, 275.0),
    # Earth-like corners for the geodesic properties (1/f in [280, 320])
    'g63_280': gc.Ellipsoid(6.3e6, 280.0), 'g63_320': gc.Ellipsoid(6.3e6, 320.0),
    'g64_280': gc.Ellipsoid(6.4e6, 280.0), 'g64_320': gc.Ellipsoid(6.4e6, 320.0),
    # near-twins of shipped ellipsoids (a re-estimated axis, a flattening quoted to fewer digits): a few millimetres / a few 1e-7 away,
    # so that 'equal within a tolerance' is not 'the same ellipsoid'
    'grs80_a3mm': gc.Ellipsoid(6378137.003, 298.257222101), 'grs80_f2e7': gc.Ellipsoid(6378137.0, 298.2572223),
    'ans_a5mm': gc.Ellipsoid(6378160.005, 298.25), 'wgs84_f3e7': gc.Ellipsoid(6378137.0, 298.257223863),
    # nearly spherical bodies and the sphere itself (C03 places no bound on 1/f): formulas dividing by e^2 lose everything here
    'ns_1e3': gc.Ellipsoid(6371000.0, 1.0e3), 'ns_2e4': gc.Ellipsoid(6371000.0, 2.0e4), 'ns_1e6': gc.Ellipsoid(6371000.0, 1.0e6),
    'ns_1e9': gc.Ellipsoid(6371000.0, 1.0e9), 'sphere': gc.Ellipsoid(6371000.0, float('inf')),
}
TWINS = ['grs80_a3mm', 'grs80_f2e7', 'ans_a5mm', 'wgs84_f3e7']
import decimal as _decimal
# an ellipsoid DEFINED with an integer axis and a decimal.Decimal inverse flattening (as the stand-alone script holds its constants)
ELLS['intl24_dec'] = gc.Ellipsoid(6378388, _decimal.Decimal('297'))
ELLS['wgs84_dec'] = gc.Ellipsoid(6378137, _decimal.Decimal('298.257223563'))
NEAR_SPHERES = ['ns_1e3', 'ns_2e4', 'ns_1e6', 'ns_1e9', 'sphere']
ELL_AF = {k: (float(v.semimaj), float(v.inversef)) for k, v in ELLS.items()}
# Published defining values of the shipped ellipsoids (EPSG 7019, 7030, 7003, 7022) and projections (UTM; NSW ISG technical
# manual).  The oracles use THESE numbers, not the ones stored in the library objects, so a mistyped constant is a
# difference between the library and the definition instead of being copied into the reference.
PUBLISHED_ELL = {'grs80': (6378137.0, 298.257222101), 'wgs84': (6378137.0, 298.257223563), 'ans': (6378160.0, 298.25),
                 'intl24': (6378388.0, 297.0)}
PUBLISHED_PRJ = {'utm': (500000.0, 10000000.0, 0.9996, 6.0, -177.0), 'isg': (300000.0, 5000000.0, 0.99994, 2.0, -177.0)}
ELL_AF.update(PUBLISHED_ELL)
SHIPPED = ['grs80', 'wgs84', 'ans', 'intl24']
E9 = SHIPPED + ['e63_150', 'e63_400', 'e64_150', 'e64_400', 'e635_275']
G8 = SHIPPED + ['g63_280', 'g63_320', 'g64_280', 'g64_320', 'grs80_a3mm']

def ell_field_forms(name):
    """the same ellipsoid DEFINED with its two numbers in other exact forms: (form name, fresh Ellipsoid).  The semi-major axis of every
    shipped ellipsoid is a whole number of metres (ints, numpy integers of 32 / 64 bits, unsigned); 1/f as Decimal / Fraction / numpy"""
    import numpy as np
    from decimal import Decimal
    from fractions import Fraction
    a, invf = ELL_AF[name]
    out = []
    if float(a).is_integer():
        ia = int(a)
        for nm, x in (('int', ia), ('npi64', np.int64(ia)), ('npi32', np.int32(ia)), ('npu32', np.uint32(ia)), ('np64', np.float64(a))):
            out.append(('a:' + nm, x, invf))
        out.append(('a:int,1/f:Decimal', ia, Decimal(repr(invf))))
        out.append(('a:int,1/f:Fraction', ia, Fraction(repr(invf))))
    out.append(('1/f:np64', a, np.float64(invf)))
    res = []
    for nm, aa, ff in out:
        try:
            res.append((nm, gc.Ellipsoid(aa, ff)))
        except Exception as e:
            res.append((nm, e))
    return res


class SubEllipsoid(gc.Ellipsoid):
    """a user's own subclass of the library's Ellipsoid (adds a label): IS an Ellipsoid"""
    label = 'user ellipsoid'


class SubProjection(gc.Projection):
    label = 'user projection'


def ell_object_forms(name):
    """the same ellipsoid as OTHER OBJECTS: (form, object, strict).  strict forms must behave exactly like the plain object (an
    instance of a subclass, a copy, a deep copy, a pickle round trip); the non-strict duck-typed form (another class with the same
    public fields) may be rejected with an exception, but if it is accepted it must mean the ellipsoid its fields say."""
    import copy
    import pickle
    import types
    base = ell_obj(name)
    a, invf = base.semimaj, base.inversef
    return [('subclass', SubEllipsoid(a, invf), True), ('copy', copy.copy(base), True), ('deepcopy', copy.deepcopy(base), True),
            ('pickle', pickle.loads(pickle.dumps(base)), True), ('subclass-copy', copy.copy(SubEllipsoid(a, invf)), True),
            ('duck', types.SimpleNamespace(**vars(gc.Ellipsoid(a, invf))), False)]


def prj_object_forms(prj):
    import copy
    import pickle
    import types
    base = PRJS[prj] if isinstance(prj, str) else prj
    args = (base.falseeast, base.falsenorth, base.cmscale, base.zonewidth, base.initialcm)
    return [('subclass', SubProjection(*args), True), ('copy', copy.copy(base), True), ('deepcopy', copy.deepcopy(base), True),
            ('pickle', pickle.loads(pickle.dumps(base)), True), ('duck', types.SimpleNamespace(**vars(gc.Projection(*args))), False)]


def ell_obj(name):
    """the ellipsoid object for a case: shipped ones are the shipped constants; arbitrary ones are built FRESH for every use
    and dropped afterwards (CPython then reuses their address for the next one: a memo keyed on id() or on one parameter
    answers with the previous ellipsoid's constants)"""
    if name in SHIPPED:
        return ELLS[name]
    a, invf = ELL_AF[name]
    return gc.Ellipsoid(ELLS[name].semimaj, ELLS[name].inversef)


# ---- projections ----------------------------------------------------------------------------
PRJS = {
    'utm': gc.utm, 'isg': gc.isg,
    'p0': gc.Projection(0, 0, 1, 6, -177),
    'p1': gc.Projection(200000, 3000000, 0.9999, 6, -177),
    'p2': gc.Projection(500000, 10000000, 0.9996, 3, -178.5),
    # zone layouts that do NOT start at -180: Gauss-Krueger style (zone 1 at 3E, 3-degree zones) and a
    # national-grid style (zone 1 at 111E, 4-degree zones)
    'p3': gc.Projection(500000, 0, 1.0, 3, 3),
    'p4': gc.Projection(400000, 5000000, 0.9998, 4, 111),
    # layouts with a zone whose central meridian is EXACTLY 0.0 (zone 31 of a UTM-like layout starting at -180; zone 1 of a
    # 2-degree layout starting at Greenwich): zero is a longitude, not 'not given'
    'p7': gc.Projection(500000, 10000000, 0.9996, 6, -180),
    'p8': gc.Projection(300000, 0, 0.99995, 2, 0),
}
# projections configured by copying a shipped one and adjusting attributes afterwards (a Projection is a plain attribute
# holder: anything derived from its attributes at construction time would be stale here)
_p5 = _copy.copy(gc.utm)
_p5.cmscale = 0.9999
_p5.falsenorth = 5000000
PRJS['p5'] = _p5
_p6 = gc.Projection(0, 0, 1, 1, 0)
_p6.falseeast, _p6.falsenorth, _p6.cmscale, _p6.zonewidth, _p6.initialcm = 250000, 10000000, 1.0, 6, -177
PRJS['p6'] = _p6
# a value-equal but distinct copy of the ISG projection (what a deep copy or a pickle round trip of `isg` produces)
PRJS['isg2'] = _copy.deepcopy(gc.isg)
PRJ_PAR = {k: (float(v.falseeast), float(v.falsenorth), float(v.cmscale), float(v.zonewidth), float(v.initialcm))
           for k, v in PRJS.items()}
PRJ_PAR.update(PUBLISHED_PRJ)
PRJ_PAR['isg2'] = PUBLISHED_PRJ['isg']
# ISG zone definition (NSW Integrated Survey Grid): zone 'ZZ/s' -> central meridian
ISG_CM = {541: 139.0, 542: 141.0, 543: 143.0, 551: 145.0, 552: 147.0, 553: 149.0,
          561: 151.0, 562: 153.0, 563: 155.0, 572: 159.0}
# (ellipsoid, projection) configurations for the TM properties
TM_CONFIGS = ([(e, 'utm') for e in E9] + [('ans', 'isg'), ('grs80', 'isg')] +
              [('grs80', 'p0'), ('e64_400', 'p0'), ('grs80', 'p1'), ('e63_150', 'p1'), ('intl24', 'p2'), ('e635_275', 'p2'),
               ('wgs84', 'p3'), ('ans', 'p4'), ('grs80', 'p5'), ('intl24', 'p6'), ('ans', 'isg2'), ('wgs84', 'p7'), ('grs80', 'p8'), ('grs80_a3mm', 'utm'), ('wgs84_dec', 'utm'), ('intl24_dec', 'p1')])


def n_zones(prj):
    """number of zones of the layout that fit below +180 (at most 60, the API's limit)"""
    fe, fn, k0, zw, icm = PRJ_PAR[prj]
    return min(60, int((180.0 - (icm - 0.5 * zw)) / zw + 1e-9))


def cm_of(prj, zone):
    if prj == 'isg':
        return ISG_CM[int(zone)]
    if prj == 'isg2':
        raise KeyError('the zone label of a copy of the ISG projection is not interpreted (see nearest_cm)')
    fe, fn, k0, zw, icm = PRJ_PAR[prj]
    return icm + (int(zone) - 1) * zw


def nearest_cm(prj, lon):
    """central meridian of the layout within half a zone width of lon (independent of any zone numbering)"""
    fe, fn, k0, zw, icm = PRJ_PAR[prj]
    return icm + round((lon - icm) / zw) * zw


def published_constants_ok():
    """list of (name, library value, published value) for every shipped ellipsoid / projection constant that differs"""
    bad = []
    for n, (a, invf) in PUBLISHED_ELL.items():
        o = ELLS[n]
        if (float(o.semimaj), float(o.inversef)) != (a, invf):
            bad.append((n, [float(o.semimaj), float(o.inversef)], [a, invf]))
    for n, par in PUBLISHED_PRJ.items():
        o = PRJS[n]
        got = (float(o.falseeast), float(o.falsenorth), float(o.cmscale), float(o.zonewidth), float(o.initialcm))
        if got != par:
            bad.append((n, list(got), list(par)))
    return bad


# published parameter sets that properties name explicitly (GDA2020 Technical Manual v1.2: Table 3.2 / section 3.3 and the
# National Measurement determination 2017): field -> decimal string
PUBLISHED_TRANS = {
    'gda94_to_gda2020': {'from_datum': 'GDA94', 'to_datum': 'GDA2020', 'ref_epoch': 0,
                         'tx': '0.06155', 'ty': '-0.01087', 'tz': '-0.04019', 'sc': '-0.009994',
                         'rx': '-0.0394924', 'ry': '-0.0327221', 'rz': '-0.0328979',
                         'd_tx': '0', 'd_ty': '0', 'd_tz': '0', 'd_sc': '0', 'd_rx': '0', 'd_ry': '0', 'd_rz': '0',
                         'sd': {'sd_tx': '0.0007', 'sd_ty': '0.0006', 'sd_tz': '0.0007', 'sd_sc': '0.00010',
                                'sd_rx': '0.000011', 'sd_ry': '0.000010', 'sd_rz': '0.000011'}},
    'itrf2014_to_gda2020': {'from_datum': 'ITRF2014', 'to_datum': 'GDA2020', 'ref_epoch': (2020, 1, 1),
                            'tx': '0', 'ty': '0', 'tz': '0', 'sc': '0', 'rx': '0', 'ry': '0', 'rz': '0',
                            'd_tx': '0', 'd_ty': '0', 'd_tz': '0', 'd_sc': '0',
                            'd_rx': '0.00150379', 'd_ry': '0.00118346', 'd_rz': '0.00120716',
                            'sd': {'sd_d_rx': '0.00000417', 'sd_d_ry': '0.00000401', 'sd_d_rz': '0.00000370'}},
}
PUBLISHED_TRANS['atrf2014_to_gda2020'] = dict(PUBLISHED_TRANS['itrf2014_to_gda2020'], from_datum='ATRF2014')


def published_trans_ok(names):
    """(set, field, library value, published value) for every field of the named shipped sets that differs"""
    import datetime
    from decimal import Decimal
    bad = []
    for n in names:
        pub, t = PUBLISHED_TRANS[n], getattr(gc, n)
        for f, want in pub.items():
            if f == 'sd':
                for g, w in want.items():
                    got = getattr(t.tf_sd, g, None)
                    if got is None or Decimal(repr(float(got))) != Decimal(w):
                        bad.append((n, g, got, w))
            elif f == 'ref_epoch':
                exp = datetime.date(*want) if want else 0
                if t.ref_epoch != exp:
                    bad.append((n, f, str(t.ref_epoch), str(exp)))
            elif f in ('from_datum', 'to_datum'):
                if getattr(t, f) != want:
                    bad.append((n, f, getattr(t, f), want))
            else:
                got = getattr(t, f)
                if Decimal(repr(float(got))) != Decimal(want):
                    bad.append((n, f, got, want))
    return bad


# ---- angle input types ----------------------------------------------------------------------
INTYPES = ['float', 'deca', 'hpa', 'gona', 'dms', 'ddm', 'dmss', 'ddms', 'dmsa', 'ddma', 'dmsr', 'ddmr', 'dmsp', 'hpac', 'ddmc',
           'dmsu', 'ddmu', 'dmsd', 'ddmd', 'hpad', 'decak', 'decaa']
# dmsu / ddmu: UNREDUCED fields (59 min 60+ s, 60+ min: what adding field by field or rounding leaves behind; the angle is still
# degree + minute/60 + second/3600); dmsd / ddmd / hpad: objects restored from a stored instance dictionary without running the
# constructor (older pickles, copyreg, json round trips); decak: DECAngle(dec_angle=v) by keyword; decaa: a DECAngle whose
# dec_angle was assigned after construction (the float slot of the object keeps the old number)
# dmss / ddms: the object rebuilt from its own text form (DMSAngle(str(o)): tiny seconds print in exponent notation);
# dmsa / ddma: an object whose public fields were assigned after construction;
# dmsp: a DMS object after a pickle round trip; hpac / ddmc: deep / shallow copies of HP / DDM objects;
# dmsr / ddmr: an object RETURNED BY THE LIBRARY (dec2dms / dec2ddm of another angle, used once) whose fields were then assigned
# other legal forms of a float: numpy float64 scalars (a float subclass) as produced by array indexing / numpy arithmetic
NUMFORMS = ['np64', 'np0d', 'np32']


FORM_MISMATCH = []      # (kind, intended decimal degrees, denoted decimal degrees); drained by core.eval_one after each case


def denote(obj):
    """decimal degrees an angle object denotes, read from its PUBLIC state with exact rationals (no library method)"""
    from fractions import Fraction as F
    from gpmc import oracle_misc as om
    if isinstance(obj, ga.DMSAngle):
        v = F(int(obj.degree)) + F(int(obj.minute), 60) + F(float(obj.second)) / 3600
        return float(v if obj.positive else -v)
    if isinstance(obj, ga.DDMAngle):
        v = F(int(obj.degree)) + F(float(obj.minute)) / 60
        return float(v if obj.positive else -v)
    if isinstance(obj, ga.HPAngle):
        x = float(obj.hp_angle)
        sg, d, m, s, valid = om.hp_fields(x, 13 if abs(x) < 512 else 12)      # from 512 deg on a float64 has no 13th decimal
        return float(sg * (F(d) + F(m, 60) + s / 3600))
    if isinstance(obj, ga.GONAngle):
        return float(F(float(obj.gon_angle)) * 9 / 10)
    if isinstance(obj, ga.DECAngle):
        return float(obj.dec_angle)           # the angle the object holds (its float slot is not its public state)
    raise TypeError(type(obj))


def as_type(dec, kind):
    """build an angle argument of the requested kind from decimal degrees (may raise for hpa: C08's business).
    The object must denote the requested angle (1e-11 deg): a constructor path that silently builds another angle is
    recorded in FORM_MISMATCH and reported by core.eval_one as a violation of the property under check."""
    o = _as_type(dec, kind)
    if not isinstance(o, (_NumObj, float)):
        try:
            d = denote(o)
        except Exception as e:
            d = 'harness:' + repr(e)
        if isinstance(d, str) or not abs(d - dec) <= 1e-11:
            FORM_MISMATCH.append((kind, dec, d))
    return o


def _as_type(dec, kind):
    if kind == 'float':
        return float(dec)
    if kind == 'deca':
        return ga.DECAngle(dec)
    if kind == 'hpa':
        return ga.HPAngle(ga.dec2hp(dec))
    if kind == 'gona':
        return ga.GONAngle(ga.dec2gon(dec))
    if kind == 'dms':
        return ga.dec2dms(dec)
    if kind == 'ddm':
        return ga.dec2ddm(dec)
    if kind == 'dmss':
        return ga.DMSAngle(str(ga.dec2dms(dec)))
    if kind == 'ddms':
        return ga.DDMAngle(str(ga.dec2ddm(dec)))
    if kind == 'dmsa':
        src = ga.dec2dms(dec)
        o = ga.DMSAngle(12, 34, 56.789, positive=not src.positive)
        o.degree, o.minute, o.second, o.positive = src.degree, src.minute, src.second, src.positive
        return o
    if kind == 'ddma':
        src = ga.dec2ddm(dec)
        o = ga.DDMAngle(12, 34.56789, positive=not src.positive)
        o.degree, o.minute, o.positive = src.degree, src.minute, src.positive
        return o
    if kind == 'dmsp':
        import pickle
        return pickle.loads(pickle.dumps(ga.dec2dms(dec)))
    if kind == 'hpac':
        import copy
        return copy.deepcopy(ga.HPAngle(ga.dec2hp(dec)))
    if kind == 'ddmc':
        import copy
        return copy.copy(ga.dec2ddm(dec))
    if kind == 'dmsr':
        src = ga.dec2dms(dec)
        o = ga.dec2dms(-12.58244138888889 if src.positive else 12.58244138888889)
        o.dec(), o.hp(), str(o)
        o.degree, o.minute, o.second, o.positive = src.degree, src.minute, src.second, src.positive
        return o
    if kind == 'ddmr':
        src = ga.dec2ddm(dec)
        o = ga.dec2ddm(-12.58244138888889 if src.positive else 12.58244138888889)
        o.dec(), o.hp(), str(o)
        o.degree, o.minute, o.positive = src.degree, src.minute, src.positive
        return o
    if kind == 'dmsu':
        src = ga.dec2dms(dec)
        if src.minute >= 1:
            return ga.DMSAngle(src.degree, src.minute - 1, src.second + 60.0, positive=src.positive)
        if src.degree >= 1:
            return ga.DMSAngle(src.degree - 1, 59, src.second + 60.0, positive=src.positive)
        return ga.DMSAngle(0, 0, src.minute * 60.0 + src.second, positive=src.positive)
    if kind == 'ddmu':
        src = ga.dec2ddm(dec)
        if src.degree >= 1:
            return ga.DDMAngle(src.degree - 1, src.minute + 60.0, positive=src.positive)
        return src
    if kind in ('dmsd', 'ddmd', 'hpad'):
        src = ga.dec2dms(dec) if kind == 'dmsd' else ga.dec2ddm(dec) if kind == 'ddmd' else ga.HPAngle(ga.dec2hp(dec))
        o = type(src).__new__(type(src))
        # the stored dictionary carries the documented public field names (what a pickle / json dump written by the released
        # library holds), not whatever the running version keeps internally
        if kind == 'dmsd':
            o.__dict__.update({'degree': src.degree, 'minute': src.minute, 'second': src.second, 'positive': src.positive})
        elif kind == 'ddmd':
            o.__dict__.update({'degree': src.degree, 'minute': src.minute, 'positive': src.positive})
        else:
            o.__dict__.update({'hp_angle': src.hp_angle})
        return o
    if kind == 'decak':
        return ga.DECAngle(dec_angle=dec)
    if kind == 'decaa':
        o = ga.DECAngle(12.58244138888889 if dec != 12.58244138888889 else -1.5)
        o.dec_angle = float(dec)
        return o
    if kind == 'np64':
        return _NumObj(np.float64(dec))
    if kind == 'np32':
        return _NumObj(np.float32(dec))      # its value is float(np.float32(dec)); computations must stay in double precision
    if kind == 'np0d':
        # an element of a float array that went through arithmetic (0-d array scalar)
        return _NumObj(np.array([dec], dtype=float)[0] * np.float64(1.0))
    raise ValueError(kind)


class _NumObj(object):
    """wrapper used by the check modules: .value is what is passed to the library, .dec() its decimal-degree value"""

    def __init__(self, value):
        self.value = value

    def dec(self):
        return float(self.value)


def unwrap(x):
    return x.value if isinstance(x, _NumObj) else x


def exact_forms(v, f32=False):
    """every numeric spelling that denotes EXACTLY the float v: (name, value) pairs. Integer spellings (Python int, numpy
    signed/unsigned of 8..64 bits) only where v is integral and in range. float32 only on request and where the value
    survives it: under NumPy 2 promotion a float32 operand turns the library's own float arithmetic into float32
    arithmetic, which is NumPy's documented behaviour for that type and not a property of the library."""
    import numpy as np
    v = float(v)
    out = [('np64', np.float64(v)), ('np0d', np.array(v))]
    if f32 and float(np.float32(v)) == v:
        out.append(('np32', np.float32(v)))
    if v == int(v) and abs(v) < 2 ** 53:
        i = int(v)
        out.append(('int', i))
        out.append(('npi64', np.int64(i)))
        if -2 ** 31 <= i < 2 ** 31:
            out.append(('npi32', np.int32(i)))
        if -2 ** 15 <= i < 2 ** 15:
            out.append(('npi16', np.int16(i)))
        if 0 <= i:
            out.append(('npu64', np.uint64(i)))
            if i < 2 ** 32:
                out.append(('npu32', np.uint32(i)))
            if i < 2 ** 16:
                out.append(('npu16', np.uint16(i)))
            if i < 2 ** 8:
                out.append(('npu8', np.uint8(i)))
        if -128 <= i < 128:
            out.append(('npi8', np.int8(i)))
    return out


def flat(x):
    """numeric content of a result, independent of the Python / numpy types that carry it"""
    import numpy as np
    if isinstance(x, (bool, str, bytes)) or x is None:
        return x
    if isinstance(x, (int, float, np.integer, np.floating)):
        return float(x).hex()
    if isinstance(x, np.ndarray):
        return ('nd', x.shape, tuple(float(v).hex() for v in np.asarray(x, dtype=float).ravel()))
    if isinstance(x, (tuple, list)):
        return tuple(flat(v) for v in x)
    if isinstance(x, dict):
        return tuple(sorted((str(k), flat(v)) for k, v in x.items()))
    if hasattr(x, '__dict__'):
        return (type(x).__name__,) + tuple(sorted((k, flat(v)) for k, v in vars(x).items()))
    return repr(x)


def scalar_forms_agree(rec, call, args, idxs, base, site, case, coords, what, f32=False):
    """call(*args) must return the same numbers (flat) as base when the arguments at positions idxs are given in any other
    exact numeric spelling (exact_forms): one argument at a time, and all of them together in the same spelling"""
    fb = flat(base)
    forms = {i: dict(exact_forms(args[i], f32)) for i in idxs if isinstance(args[i], (int, float)) and not isinstance(args[i], bool)}
    names = []
    for d in forms.values():
        for nm in d:
            if nm not in names:
                names.append(nm)
    for nm in names:
        trials = [[(i, d[nm])] for i, d in forms.items() if nm in d]
        both = [(i, d[nm]) for i, d in forms.items() if nm in d]
        if len(both) > 1:
            trials.append(both)
        for repl in trials:
            a2 = list(args)
            for i, v in repl:
                a2[i] = v
            st, r = rec.call(call, *a2)
            if st != 'ok' or flat(r) != fb:
                rec.fail('%s answers differently when argument(s) %s are given as %s' % (what, [i for i, _ in repl], nm),
                         site=site + ':numeric-form', observed=r, expected=base, case=case,
                         coords=dict(coords, form=nm, positions=[i for i, _ in repl]))
                return False
    return True


def matrix_forms(m):
    """the same matrix as the array objects a caller may legitimately hold: (name, array) pairs.
    read-only (np.broadcast_to / memory-mapped / flags.writeable = False), Fortran order, a strided window into a larger
    array, a transposed view of the transpose, and integer / float32 dtypes where they hold the values exactly"""
    import numpy as np
    a = np.array(m, dtype=float)
    out = []
    ro = a.copy()
    ro.setflags(write=False)
    out.append(('readonly', ro))
    out.append(('fortran', np.asfortranarray(a)))
    big = np.full((2 * a.shape[0] + 1, 2 * a.shape[1] + 3), 7.25)
    win = big[1::2, 2::2][:a.shape[0], :a.shape[1]]
    win[...] = a
    out.append(('window', win))
    out.append(('tview', np.ascontiguousarray(a.T).T))
    # (np.matrix is not used: the documented input is a numpy array, and np.matrix changes the meaning of indexing and *)
    if np.all(a == np.round(a)) and np.all(np.abs(a) < 2 ** 31):
        out.append(('int64', a.astype(np.int64)))
        out.append(('int32', a.astype(np.int32)))
        if np.all(np.abs(a) < 2 ** 15):
            out.append(('int16', a.astype(np.int16)))
        if np.all(a >= 0):
            out.append(('uint64', a.astype(np.uint64)))
            out.append(('uint32', a.astype(np.uint32)))
            if np.all(a < 256):
                out.append(('uint8', a.astype(np.uint8)))
    if np.all(a.astype(np.float32).astype(float) == a):
        out.append(('float32', a.astype(np.float32)))
    return out


def forms_agree(rec, call, m, base, site, case, coords, what, skip=(), matrix_class=False):
    """call(matrix) must not modify the matrix and must return the same as for the plain float64 array (base), whatever
    array object holds the values (see matrix_forms)"""
    import numpy as np
    from gpmc import snapshot as snp
    cb = snp.canon(base)
    forms = matrix_forms(m)
    if matrix_class:
        # numpy.matrix (what older numpy code and scipy.sparse hand out; still an ndarray subclass): only where the function under
        # check accepts it on the unchanged tree; the numbers of the result are compared, its class is not
        forms = forms + [('np.matrix', np.matrix(np.array(m, dtype=float)))]
    for nm, vf in forms:
        if nm in skip:
            continue
        if nm == 'np.matrix':
            st, r = rec.call(call, vf)
            try:
                same = st == 'ok' and flat(np.asarray(r) if isinstance(r, np.ndarray) else r) == flat(np.asarray(base) if isinstance(base, np.ndarray) else base)
            except Exception:
                same = False
            if not same:
                rec.fail('%s answers differently when the same matrix is held in a numpy.matrix' % what, site=site + ':matrix-form',
                         observed=r, expected=base, case=case, coords=dict(coords, form=nm))
            continue
        bf = np.array(vf).tobytes()
        st, r = rec.call(call, vf)
        if np.array(vf).tobytes() != bf:
            rec.fail('%s modified the matrix supplied by the caller (%s array)' % (what, nm), site=site + ':argument',
                     observed=np.array(vf), expected=np.array(m).tolist(), case=case, coords=dict(coords, form=nm))
        if st != 'ok' or snp.canon(r) != cb:
            rec.fail('%s answers differently when the same matrix is held in a %s array' % (what, nm), site=site + ':matrix-form',
                     observed=r, expected=base, case=case, coords=dict(coords, form=nm))


# ---- lattice helpers ------------------------------------------------------------------------
def uniq(seq, nd=15):
    seen = set()
    out = []
    for x in seq:
        k = float(x).hex()
        if k not in seen:
            seen.add(k)
            out.append(float(x))
    return out


def fill(lo, hi, step, seed, salt=0, include_shift=True):
    """regular fill lo, lo+step, ... <= hi plus the same lattice shifted by a seed-derived phase"""
    out = []
    n = int(math.floor((hi - lo) / step + 1e-9))
    for i in range(n + 1):
        out.append(lo + i * step)
    if include_shift:
        ph = seed_phase(seed, salt) * step
        for i in range(n + 1):
            x = lo + i * step + ph
            if x <= hi:
                out.append(x)
    return out


def lat_lattice_tm(tier, seed):
    s = [-80.0, -80.0 + 1e-6, -75.0, -60.0, -45.0, -1.0, -1e-6, -1e-9, -1e-12, 0.0, 1e-12, 1e-9, 1e-6, 1.0,
         45.0, 60.0, 75.0, 84.0 - 1e-6, 84.0,
         # limits of the UTM system's irregular zones (32V: 56..64 N; 31X-37X: 72..84 N), which this library does NOT implement:
         # the zone is the regular 6-degree one everywhere
         56.0 - 1e-9, 56.0, 63.5, 64.0 - 1e-9, 64.0, 72.0 - 1e-9, 72.0, 78.5,
         # where tan(lat) passes 8 (the spacing of doubles doubles there): a sweep of the last degree of the band
         82.87, 82.88, 82.89, 82.9, 82.91, 82.92, 83.0, 83.3, 83.7, 83.9, -79.5, -79.9]
    step = 4.0 if tier == 'quick' else 1.0
    return uniq(s + fill(-80.0, 84.0, step, seed, 1))


def angdiff(a, b):
    """smallest absolute difference of two angles in degrees (mod 360)"""
    d = (float(a) - float(b)) % 360.0
    return min(d, 360.0 - d)
