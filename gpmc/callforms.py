"""Call forms as a dimension: the same call written positionally, by keyword (in any order), partly by keyword, and with
arguments that equal their documented default left out, must give the same result.

The parameter names, their order and the documented defaults are PINNED here (from the reference tree and the property
texts), not read from the live signatures: a change that inserts a parameter in front of `ellipsoid`, swaps two optional
parameters, converts only positional arguments in a decorator, or alters a default, makes one of these spellings differ.

    SIGS[key] = ([parameter names in documented order], {name: default})     default 'grs80' / 'utm' / 'DECAngle' are resolved
                                                                            to the shipped objects at call time
    CALLS[property id] = [(label, key, callable factory, [explicit arguments incl. defaults])]
"""
import datetime

import numpy as np

from gpmc import cfg


def _d(v):
    import geodepy.constants as gc
    import geodepy.angles as ga
    return {'grs80': gc.grs80, 'utm': gc.utm, 'DECAngle': ga.DECAngle}.get(v, v) if isinstance(v, str) and v in ('grs80', 'utm', 'DECAngle') else v


SIGS = {
    'geo2grid': (['lat', 'lon', 'zone', 'ellipsoid', 'prj'], {'zone': 0, 'ellipsoid': 'grs80', 'prj': 'utm'}),
    'grid2geo': (['zone', 'east', 'north', 'hemisphere', 'ellipsoid', 'prj'], {'hemisphere': 'south', 'ellipsoid': 'grs80', 'prj': 'utm'}),
    'llh2xyz': (['lat', 'lon', 'ellht', 'ellipsoid'], {'ellht': 0, 'ellipsoid': 'grs80'}),
    'xyz2llh': (['x', 'y', 'z', 'ellipsoid'], {'ellipsoid': 'grs80'}),
    'vincdir': (['lat1', 'lon1', 'azimuth1to2', 'ell_dist', 'ellipsoid'], {'ellipsoid': 'grs80'}),
    'vincinv': (['lat1', 'lon1', 'lat2', 'lon2', 'ellipsoid'], {'ellipsoid': 'grs80'}),
    'vincdir_utm': (['zone1', 'east1', 'north1', 'grid1to2', 'grid_dist', 'hemisphere', 'ellipsoid'], {'hemisphere': 'south', 'ellipsoid': 'grs80'}),
    'vincinv_utm': (['zone1', 'east1', 'north1', 'zone2', 'east2', 'north2', 'hemisphere', 'ellipsoid'], {'hemisphere': 'south', 'ellipsoid': 'grs80'}),
    'line_sf': (['zone1', 'east1', 'north1', 'zone2', 'east2', 'north2', 'hemisphere', 'ellipsoid', 'projection'],
                {'hemisphere': 'south', 'ellipsoid': 'grs80', 'projection': 'utm'}),
    'enu2xyz': (['lat', 'lon', 'east', 'north', 'up'], {}),
    'xyz2enu': (['lat', 'lon', 'x', 'y', 'z'], {}),
    'conform7': (['x', 'y', 'z', 'trans', 'vcv'], {'vcv': None}),
    'conform14': (['x', 'y', 'z', 'to_epoch', 'trans', 'vcv'], {'vcv': None}),
    'mga94_to_mga2020': (['zone', 'east', 'north', 'ell_ht', 'vcv'], {'ell_ht': False, 'vcv': None}),
    'mga2020_to_mga94': (['zone', 'east', 'north', 'ell_ht', 'vcv'], {'ell_ht': False, 'vcv': None}),
    'atrf2014_to_gda2020': (['x', 'y', 'z', 'epoch_from', 'vcv'], {'vcv': None}),
    'gda2020_to_atrf2014': (['x', 'y', 'z', 'epoch_to', 'vcv'], {'vcv': None}),
    'ntv2_2d': (['ntv2_grid', 'lat', 'lon', 'forward_tf', 'method'], {'forward_tf': True, 'method': 'bicubic'}),
    'interpolate_ntv2': (['grid_object', 'lat', 'lon', 'method'], {'method': 'bicubic'}),
    'rotation_matrix': (['lat', 'lon'], {}),
    'vcv_cart2local': (['vcv_cart', 'lat', 'lon'], {}),
    'vcv_local2cart': (['vcv_local', 'lat', 'lon'], {}),
    'relative_error': (['lat', 'lon', 'var1', 'var2', 'cov12'], {}),
    'first_vel_params': (['wavelength', 'frequency', 'n_REF', 'unit_length'], {'n_REF': None, 'unit_length': None}),
    'first_vel_corrn': (['dist', 'first_vel_param', 'temp', 'pressure', 'rel_humidity', 'wet_temp', 'CO2_ppm', 'wavelength'],
                        {'rel_humidity': None, 'wet_temp': None, 'CO2_ppm': None, 'wavelength': None}),
    'phase_refractivity': (['LAMDA', 'TC', 'P', 'PV', 'XC'], {'XC': 420}),
    'group_refractivity': (['LAMDA', 'TC', 'P', 'PV', 'XC'], {'XC': 420}),
    'va_conv': (['zenith_angle', 'slope_dist', 'height_inst', 'height_tgt'], {'height_inst': 0, 'height_tgt': 0}),
    'precise_inst_ht': (['vert_list', 'spacing', 'offset'], {}),
    'radiations': (['east1', 'north1', 'brg1to2', 'dist', 'rotation', 'psf'], {'rotation': 0, 'psf': 1}),
    'joins': (['east1', 'north1', 'east2', 'north2'], {}),
    'CoordGeo': (['lat', 'lon', 'ell_ht', 'orth_ht'], {'ell_ht': None, 'orth_ht': None}),
    'CoordCart': (['xaxis', 'yaxis', 'zaxis', 'nval'], {'nval': None}),
    'CoordTM': (['zone', 'east', 'north', 'ell_ht', 'orth_ht', 'hemi_north', 'projection'],
                {'ell_ht': None, 'orth_ht': None, 'hemi_north': False, 'projection': 'utm'}),
    'CoordGeo.tm': (['ellipsoid', 'projection'], {'ellipsoid': 'grs80', 'projection': 'utm'}),
    'CoordGeo.cart': (['ellipsoid'], {'ellipsoid': 'grs80'}),
    'CoordCart.tm': (['ellipsoid', 'projection'], {'ellipsoid': 'grs80', 'projection': 'utm'}),
    'CoordCart.geo': (['ellipsoid', 'notation'], {'ellipsoid': 'grs80', 'notation': 'DECAngle'}),
    'CoordTM.cart': (['ellipsoid'], {'ellipsoid': 'grs80'}),
    'CoordTM.geo': (['ellipsoid', 'notation'], {'ellipsoid': 'grs80', 'notation': 'DECAngle'}),
    'Transformation': (['from_datum', 'to_datum', 'ref_epoch', 'tx', 'ty', 'tz', 'sc', 'rx', 'ry', 'rz', 'd_tx', 'd_ty', 'd_tz', 'd_sc', 'd_rx',
                        'd_ry', 'd_rz', 'tf_sd'], {'d_tx': 0.0, 'd_ty': 0.0, 'd_tz': 0.0, 'd_sc': 0.0, 'd_rx': 0.0, 'd_ry': 0.0, 'd_rz': 0.0, 'tf_sd': None}),
    'iers2trans': (['itrf_from', 'itrf_to', 'ref_epoch', 'tx', 'ty', 'tz', 'sc', 'rx', 'ry', 'rz', 'd_tx', 'd_ty', 'd_tz', 'd_sc', 'd_rx', 'd_ry', 'd_rz'], {}),
    'DMSAngle': (['degree', 'minute', 'second', 'positive'], {'minute': 0, 'second': 0.0, 'positive': None}),
    'DDMAngle': (['degree', 'minute', 'positive'], {'minute': 0.0, 'positive': None}),
    'Ellipsoid': (['semimaj', 'inversef'], {}),
    'Projection': (['falseeast', 'falsenorth', 'cmscale', 'zonewidth', 'initialcm'], {}),
}


def _same(a, b):
    if a is b:
        return True
    try:
        if isinstance(a, (int, float, str, bool)) and isinstance(b, (int, float, str, bool)) and type(a) is type(b):
            return a == b
    except Exception:
        pass
    return False


def spellings(key, args):
    """(description, positional list, keyword dict) for every spelling of the call"""
    names, defaults = SIGS[key]
    assert len(args) <= len(names), key
    n = len(args)
    pairs = list(zip(names, args))
    out = [('all keywords', [], dict(pairs)), ('keywords in reverse order', [], dict(reversed(pairs)))]
    for i in range(1, n):
        out.append(('%d positional + keywords' % i, list(args[:i]), dict(pairs[i:])))
    # arguments that equal their documented default left out (singly, then all of them)
    droppable = [nm for nm, v in pairs if nm in defaults and _same(v, _d(defaults[nm]))]
    for nm in droppable:
        req = [p for p in pairs if p[0] not in defaults]
        opt = [p for p in pairs if p[0] in defaults and p[0] != nm]
        out.append(('default %s left out' % nm, [v for _, v in req], dict(opt)))
    if len(droppable) > 1:
        keep = [p for p in pairs if p[0] not in droppable]
        out.append(('all defaults left out', [], dict(keep)))
    # trailing defaults left out positionally
    k = n
    while k > 0 and names[k - 1] in defaults and _same(args[k - 1], _d(defaults[names[k - 1]])):
        k -= 1
    if k < n:
        out.append(('trailing defaults left out, positional', list(args[:k]), {}))
    # boolean parameters in the forms a caller holds them: numpy booleans (an element of a boolean array) and 1 / 0
    for i, (nm, v) in enumerate(pairs):
        # (only parameters documented as plain booleans; `hemi_north` is type-checked by the library itself and `ell_ht=False` is "no
        #  height", where 0 would be a height)
        if isinstance(v, bool) and nm in ('forward_tf', 'positive'):
            for alt, desc in ((np.bool_(v), 'numpy.bool_'), (int(v), 'int 1/0')):
                a2 = list(args)
                a2[i] = alt
                out.append(('flag %s given as %s' % (nm, desc), a2, {}))
    # documented defaults appended explicitly
    if n < len(names) and all(nm in defaults for nm in names[n:]):
        out.append(('documented defaults given explicitly', list(args) + [_d(defaults[nm]) for nm in names[n:]], {}))
    return out


def agree(rec, fn, key, args, site, case, coords, what, view=None):
    """every spelling of fn(*args) returns the same (cfg.flat of view(result)) as the positional call"""
    view = view or (lambda r: r)
    st, base = rec.call(fn, *args)
    if st != 'ok':
        rec.fail('%s raised on the positional call' % what, site=site + ':raise', observed=base, case=case, coords=coords)
        return False
    fb = cfg.flat(view(base))
    ok = True
    for desc, pos, kw in spellings(key, args):
        st, r = rec.call(fn, *pos, **kw)
        if st != 'ok' or cfg.flat(view(r)) != fb:
            ok = False
            rec.fail('%s answers differently when the call is written with %s' % (what, desc), site=site + ':call-form',
                     observed=r if st != 'ok' else view(r), expected=view(base), case=case, coords=dict(coords, form=desc, keywords=sorted(kw)))
    return ok


# ------------------------------------------------------------------------------------------------------------------
# representative calls per property: explicit arguments INCLUDING the defaults (so that "default left out" is exercised),
# angle-class arguments where the API takes them (a decorator that converts only positional arguments shows there),
# non-default ellipsoids / projections.
def calls(pid):
    import geodepy.constants as gc
    import geodepy.convert as gv
    import geodepy.geodesy as gg
    import geodepy.transform as gt
    import geodepy.statistics as gs
    import geodepy.survey as sv
    import geodepy.angles as ga
    import geodepy.coord as gco
    X, Y, Z = -4052051.7643, 4212836.2017, -2545106.0245
    V = np.array([[1e-4, 2e-5, -1e-5], [2e-5, 4e-4, 3e-5], [-1e-5, 3e-5, 9e-4]])
    D30, D85 = datetime.date(2030, 1, 1), datetime.date(1985, 7, 1)
    hp, dms, gon, ddm = ga.HPAngle, ga.DMSAngle, ga.GONAngle, ga.DDMAngle
    T = gc.Transformation
    def _geo():
      return [
        ('utm default', 'geo2grid', gv.geo2grid, [-33.5, 151.2, 0, gc.grs80, gc.utm]),
        ('isg', 'geo2grid', gv.geo2grid, [-33.5, 151.2, 0, gc.ans, gc.isg]),
        ('isg, grs80', 'geo2grid', gv.geo2grid, [-33.5, 151.2, 0, gc.grs80, gc.isg]),
        ('explicit zone, intl', 'geo2grid', gv.geo2grid, [45.5, -73.6, 18, gc.intl24, gc.utm]),
        ('HP objects', 'geo2grid', gv.geo2grid, [hp(-23.4012), hp(133.5248), 0, gc.grs80, gc.utm]),
        ('DMS objects, ans', 'geo2grid', gv.geo2grid, [dms(-23, 40, 12.5), dms(133, 52, 48.0), 53, gc.ans, gc.utm]),
        ('GON objects', 'geo2grid', gv.geo2grid, [gon(-26.3), gon(148.75)]),
    ]
    def _grid():
      return [
        ('utm default', 'grid2geo', gv.grid2geo, [53, 386352.3979, 7381850.7689, 'south', gc.grs80, gc.utm]),
        ('isg, ans', 'grid2geo', gv.grid2geo, [561, 318743.2, 1291327.7, 'south', gc.ans, gc.isg]),
        ('isg, grs80', 'grid2geo', gv.grid2geo, [561, 318743.2, 1291327.7, 'south', gc.grs80, gc.isg]),
        ('north, intl', 'grid2geo', gv.grid2geo, [18, 612345.678, 4321098.765, 'north', gc.intl24, gc.utm]),
        ('required only', 'grid2geo', gv.grid2geo, [55, 300000.0, 6200000.0]),
    ]
    table = {
        'C01': lambda: _geo(),
        'C02': lambda: _grid() + _geo()[:3],
        'C03': lambda: [
            ('llh default', 'llh2xyz', gv.llh2xyz, [-37.8, 144.97, 0, gc.grs80]),
            ('llh ans', 'llh2xyz', gv.llh2xyz, [-37.8, 144.97, 39.65, gc.ans]),
            ('llh HP objects', 'llh2xyz', gv.llh2xyz, [hp(-23.4012), hp(133.5248), 603.2, gc.intl24]),
            ('llh DMS objects', 'llh2xyz', gv.llh2xyz, [dms(-0, 30, 0), dms(359, 59, 59.9), 0, gc.grs80]),
            ('xyz default', 'xyz2llh', gv.xyz2llh, [X, Y, Z, gc.grs80]),
            ('xyz ans west', 'xyz2llh', gv.xyz2llh, [2765120.7, -4449250.0, 3626405.6, gc.ans]),
            ('xyz intl', 'xyz2llh', gv.xyz2llh, [1.0e7, -2.0e7, 3.0e7, gc.intl24]),
        ],
        'C04': lambda: [
            ('grs80', 'vincdir', gg.vincdir, [-37.95103342, 144.42486789, 306.86815920, 54972.271, gc.grs80]),
            ('intl', 'vincdir', gg.vincdir, [10.0, -20.0, 45.0, 1.5e7, gc.intl24]),
            ('HP objects', 'vincdir', gg.vincdir, [hp(-37.57037203), hp(144.25295244), hp(306.520537), 54972.271, gc.grs80]),
            ('DMS objects', 'vincdir', gg.vincdir, [dms(-0, 30, 0), dms(100, 0, 0), dms(90, 0, 0), 1.0e6, gc.ans]),
            ('GON objects', 'vincdir', gg.vincdir, [gon(50.0), gon(-100.0), gon(350.0), 2.0e5]),
            ('DDM objects', 'vincdir', gg.vincdir, [ddm(-12, 30.5), ddm(130, 59.9), ddm(0, 0.0), 10.0]),
        ],
        'C05': lambda: [
            ('grs80', 'vincinv', gg.vincinv, [-37.95103342, 144.42486789, -37.65282114, 143.92649553, gc.grs80]),
            ('ans', 'vincinv', gg.vincinv, [10.0, 179.5, -12.0, -179.5, gc.ans]),
            ('HP objects', 'vincinv', gg.vincinv, [hp(-37.57037203), hp(144.25295244), hp(-37.39101561), hp(143.55353839), gc.grs80]),
            ('DMS objects', 'vincinv', gg.vincinv, [dms(-0, 30, 0), dms(100, 0, 0), dms(0, 30, 0), dms(101, 0, 0), gc.intl24]),
            ('GON objects', 'vincinv', gg.vincinv, [gon(50.0), gon(-100.0), gon(40.0), gon(-90.0)]),
        ],
        'C06': lambda: [
            ('no vcv', 'conform7', gt.conform7, [X, Y, Z, gc.gda94_to_gda2020, None]),
            ('vcv', 'conform7', gt.conform7, [X, Y, Z, gc.gda2020_to_gda94, V]),
            ('user set', 'Transformation', T, ['A', 'B', 0, 1.0, -2.0, 3.0, 0.5, 0.1, -0.2, 0.3, 0.0, 0.0, 0.0, 0.0, 0.0, 0.0, 0.0, None]),
            ('user set with rates', 'Transformation', T, ['A', 'B', datetime.date(2010, 1, 1), 1.0, -2.0, 3.0, 0.5, 0.1, -0.2, 0.3, 0.01, 0.02, -0.03, 0.001, 0.002, 0.003, -0.004]),
        ],
        'C07': lambda: [
            ('no vcv', 'conform14', gt.conform14, [X, Y, Z, D30, gc.itrf2014_to_gda2020, None]),
            ('vcv', 'conform14', gt.conform14, [X, Y, Z, D85, gc.itrf2008_to_gda94, V]),
            ('wrapper fwd', 'atrf2014_to_gda2020', gt.transform_atrf2014_to_gda2020, [X, Y, Z, D30, None]),
            ('wrapper fwd vcv', 'atrf2014_to_gda2020', gt.transform_atrf2014_to_gda2020, [X, Y, Z, D85, V]),
            ('wrapper rev', 'gda2020_to_atrf2014', gt.transform_gda2020_to_atrf2014, [X, Y, Z, D30, None]),
            ('wrapper rev vcv', 'gda2020_to_atrf2014', gt.transform_gda2020_to_atrf2014, [X, Y, Z, D85, V]),
        ],
        'C08': lambda: [
            ('DMS numbers', 'DMSAngle', ga.DMSAngle, [-12, 34, 56.789, None]),
            ('DMS degrees only', 'DMSAngle', ga.DMSAngle, [123, 0, 0.0, None]),
            ('DMS negative zero', 'DMSAngle', ga.DMSAngle, [0, 30, 15.5, False]),
            ('DDM numbers', 'DDMAngle', ga.DDMAngle, [-12, 34.5678, None]),
            ('DDM degrees only', 'DDMAngle', ga.DDMAngle, [90, 0.0, None]),
        ],
        'C10': lambda: _geo()[:4] + _grid()[:4],
        'C11': lambda: [
            ('iers', 'iers2trans', gc.iers2trans, ['ITRF2020', 'ITRF2008', datetime.date(2015, 1, 1), 0.2, 1.0, 3.3, -0.29, 0.01, -0.02, 0.03, 0.0, -0.1,
                                                 0.1, 0.03, 0.001, 0.002, -0.003]),
            ('set', 'Transformation', T, ['ITRF2014', 'GDA2020', datetime.date(2020, 1, 1), 0.0, 0.0, 0.0, 0.0, 0.0, 0.0, 0.0, 0.0, 0.0, 0.0, 0.0,
                                          0.00150379, 0.00118346, 0.00120716, None]),
        ],
        'C13': lambda: [
            ('fwd no height', 'mga94_to_mga2020', gt.transform_mga94_to_mga2020, [53, 386352.3979, 7381850.7689, False, None]),
            ('fwd height vcv', 'mga94_to_mga2020', gt.transform_mga94_to_mga2020, [53, 386352.3979, 7381850.7689, 603.3466, V]),
            ('back no height', 'mga2020_to_mga94', gt.transform_mga2020_to_mga94, [55, 300000.0, 6200000.0, False, None]),
            ('back height vcv', 'mga2020_to_mga94', gt.transform_mga2020_to_mga94, [55, 300000.0, 6200000.0, 10.0, V]),
            ('back height 0', 'mga2020_to_mga94', gt.transform_mga2020_to_mga94, [50, 9e5, 9.4e6, 0.0, None]),
        ],
        'C14': lambda: [
            ('inverse default', 'vincinv_utm', gg.vincinv_utm, [55, 273741.2966, 5796489.7769, 54, 758173.7973, 5828674.3402, 'south', gc.grs80]),
            ('inverse north intl', 'vincinv_utm', gg.vincinv_utm, [31, 500000.0, 5000000.0, 31, 560000.0, 5060000.0, 'north', gc.intl24]),
            ('direct default', 'vincdir_utm', gg.vincdir_utm, [55, 273741.2966, 5796489.7769, 305.17017, 54992.279, 'south', gc.grs80]),
            ('direct north ans', 'vincdir_utm', gg.vincdir_utm, [2, 700000.0, 3000000.0, 120.0, 80000.0, 'north', gc.ans]),
            ('line_sf default', 'line_sf', gg.line_sf, [55, 273741.2966, 5796489.7769, 54, 758173.7973, 5828674.3402, 'south', gc.grs80, gc.utm]),
            ('line_sf intl', 'line_sf', gg.line_sf, [31, 500000.0, 5000000.0, 32, 200000.0, 5060000.0, 'north', gc.intl24, gc.utm]),
        ],
        'C15': lambda: [
            ('CoordGeo', 'CoordGeo', gco.CoordGeo, [-33.5, 151.2, None, None]),
            ('CoordGeo heights', 'CoordGeo', gco.CoordGeo, [dms(-23, 40, 12.5), dms(133, 52, 48.0), 603.2, 588.1]),
            ('CoordCart', 'CoordCart', gco.CoordCart, [X, Y, Z, None]),
            ('CoordTM', 'CoordTM', gco.CoordTM, [53, 386352.3979, 7381850.7689, None, None, False, gc.utm]),
            ('CoordTM isg', 'CoordTM', gco.CoordTM, [561, 318743.2, 1291327.7, 10.0, 2.0, False, gc.isg]),
            ('geo.tm', 'CoordGeo.tm', gco.CoordGeo(-33.5, 151.2, 17.0, 4.0).tm, [gc.grs80, gc.utm]),
            ('geo.tm isg', 'CoordGeo.tm', gco.CoordGeo(-33.5, 151.2, 17.0, 4.0).tm, [gc.grs80, gc.isg]),
            ('geo.tm ans isg', 'CoordGeo.tm', gco.CoordGeo(-33.5, 151.2, 17.0, 4.0).tm, [gc.ans, gc.isg]),
            ('geo.cart', 'CoordGeo.cart', gco.CoordGeo(hp(-23.4012), hp(133.5248), 603.2, None).cart, [gc.grs80]),
            ('cart.geo', 'CoordCart.geo', gco.CoordCart(X, Y, Z, 12.5).geo, [gc.grs80, ga.DECAngle]),
            ('cart.geo ans hp', 'CoordCart.geo', gco.CoordCart(X, Y, Z, 12.5).geo, [gc.ans, ga.HPAngle]),
            ('cart.tm', 'CoordCart.tm', gco.CoordCart(X, Y, Z, None).tm, [gc.grs80, gc.utm]),
            ('cart.tm isg', 'CoordCart.tm', gco.CoordCart(-4646678.6, 2553206.1, -3534319.9, None).tm, [gc.grs80, gc.isg]),
            ('tm.geo', 'CoordTM.geo', gco.CoordTM(53, 386352.3979, 7381850.7689, 603.3, 588.1).geo, [gc.grs80, ga.DECAngle]),
            ('tm.geo isg', 'CoordTM.geo', gco.CoordTM(561, 318743.2, 1291327.7, 10.0, 2.0, False, gc.isg).geo, [gc.grs80, ga.DECAngle]),
            ('tm.geo isg ans', 'CoordTM.geo', gco.CoordTM(561, 318743.2, 1291327.7, 10.0, 2.0, False, gc.isg).geo, [gc.ans, ga.DMSAngle]),
            ('tm.cart', 'CoordTM.cart', gco.CoordTM(55, 300000.0, 6200000.0, 0.0, None).cart, [gc.grs80]),
            ('tm.cart isg', 'CoordTM.cart', gco.CoordTM(561, 318743.2, 1291327.7, 10.0, 2.0, False, gc.isg).cart, [gc.grs80]),
        ],
        'C16': lambda: [
            ('rotation', 'rotation_matrix', gs.rotation_matrix, [-23.67, 133.88]),
            ('enu2xyz', 'enu2xyz', gg.enu2xyz, [-35.0, 149.0, 1.0, -2.0, 3.0]),
            ('enu2xyz HP', 'enu2xyz', gg.enu2xyz, [hp(-35.3), hp(149.0730), 1.0, -2.0, 3.0]),
            ('enu2xyz GON', 'enu2xyz', gg.enu2xyz, [gon(-39.0), gon(165.5), 1.0, -2.0, 3.0]),
            ('enu2xyz DMS', 'enu2xyz', gg.enu2xyz, [dms(60, 0, 30), dms(25, 15, 0), 1.0, -2.0, 3.0]),
            ('xyz2enu', 'xyz2enu', gg.xyz2enu, [60.0, 25.0, 1.0, -2.0, 3.0]),
            ('xyz2enu HP', 'xyz2enu', gg.xyz2enu, [hp(-35.3), hp(149.0730), 1.0, -2.0, 3.0]),
            ('xyz2enu DDM', 'xyz2enu', gg.xyz2enu, [ddm(-12, 30.5), ddm(130, 59.9), 1.0, -2.0, 3.0]),
            ('cart2local', 'vcv_cart2local', gs.vcv_cart2local, [V, -23.67, 133.88]),
            ('local2cart', 'vcv_local2cart', gs.vcv_local2cart, [V, 45.5, -73.6]),
            ('relative_error', 'relative_error', gs.relative_error, [-23.67, 133.88, V, V * 2.0, V * 0.3]),
        ],
        'C19': lambda: [
            ('params', 'first_vel_params', sv.first_vel_params, [0.850, 14985259, None, 10.0]),
            ('params ref', 'first_vel_params', sv.first_vel_params, [0.850, None, 1.0002818, None]),
            ('closed form', 'first_vel_corrn', sv.first_vel_corrn, [1117.8517, (281.781, 79.393), 6.8, 938.5, 58.0, None, None, None]),
            ('wet bulb', 'first_vel_corrn', sv.first_vel_corrn, [1000.0, (275.3, 79.1), 20.0, 1013.25, None, 15.0, None, None]),
            ('co2 form', 'first_vel_corrn', sv.first_vel_corrn, [1117.8517, (281.781, 79.393), 6.8, 938.5, 58.0, None, 420.0, 0.850]),
            ('co2 form 2', 'first_vel_corrn', sv.first_vel_corrn, [5000.0, (281.781, 79.393), 31.5, 1010.0, 20.0, None, 450.0, 0.658]),
            ('phase default co2', 'phase_refractivity', sv.phase_refractivity, [0.85, 20.0, 1013.25, 10.0, 420]),
            ('phase', 'phase_refractivity', sv.phase_refractivity, [0.658, 25.0, 990.0, 12.0, 500]),
            ('group default co2', 'group_refractivity', sv.group_refractivity, [0.85, 20.0, 1013.25, 10.0, 420]),
            ('group', 'group_refractivity', sv.group_refractivity, [0.658, 25.0, 990.0, 12.0, 500]),
            ('va_conv', 'va_conv', sv.va_conv, [84.9, 21.5, 0, 0]),
            ('va_conv heights', 'va_conv', sv.va_conv, [84.9, 21.5, 1.6, 1.4]),
            ('radiations', 'radiations', sv.radiations, [500000.0, 6000000.0, 45.5, 120.0, 0, 1]),
            ('radiations psf', 'radiations', sv.radiations, [500000.0, 6000000.0, 45.5, 120.0, 0.2, 0.9996]),
            ('radiations DMS', 'radiations', sv.radiations, [500000.0, 6000000.0, dms(45, 30, 0), 120.0, dms(0, 12, 0), 0.9996]),
            ('joins', 'joins', sv.joins, [500000.0, 6000000.0, 500100.0, 5999900.0]),
            ('inst_ht', 'precise_inst_ht', sv.precise_inst_ht, [[89.0, 92.0, 90.0, 91.0], 0.5, 0.1]),
        ],
    }
    f = table.get(pid)
    return f() if f else []


def make(pid, site):
    def gen(tier, seed):
        try:
            cs = calls(pid)
        except Exception as e:
            # a valid argument object could not even be constructed on this tree: that is the finding
            yield {'call': -1, 'label': 'construction', 'key': '-', 'error': '%s: %s' % (type(e).__name__, e)}
            return
        for i, (label, key, fn, args) in enumerate(cs):
            yield {'call': i, 'label': label, 'key': key}

    def ev(case, rec):
        if case['call'] < 0:
            rec.nontriv((pid, 'construction'))
            try:
                calls(pid)
            except Exception as e:
                rec.fail('a valid argument of the representative calls could not be constructed: %s: %s' % (type(e).__name__, str(e)[:160]),
                         site=site + ':construct', observed=e, case=case)
            return
        label, key, fn, args = calls(pid)[case['call']]
        rec.nontriv((pid, label))
        ok = agree(rec, fn, key, list(args), site + ':' + key, case, {'label': label, 'key': key}, key,
                   view=(lambda r: vars(r) if hasattr(r, '__dict__') and not isinstance(r, np.ndarray) else r))
        rec.state(('callforms', key, label, ok))
        rec.outcome('callforms-ok' if ok else 'callforms-bad')
        rec.sample({'label': label, 'key': key, 'spellings': [d for d, _, _ in spellings(key, list(args))]})
    return gen, ev
