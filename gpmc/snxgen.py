"""Synthetic SINEX 2.02 solutions with known ground truth, and a strict fixed-column parser written from the
SINEX 2.02 format description (not from the library).

Model: stations [(code, soln)], per station 3 (STAX STAY STAZ) or 6 (+ VELX VELY VELZ) parameters, a dense symmetric
positive-definite matrix, written as the L or U triangle, three values per line.
"""
import numpy as np

SEP = '*-------------------------------------------------------------------------------'
TYPES3 = ['STAX', 'STAY', 'STAZ']
TYPES6 = TYPES3 + ['VELX', 'VELY', 'VELZ']


NAME_SETS = {
    None: ['ALIC', 'BRO1', 'CEDU', 'DARW', 'HOB2', 'KARR', 'MOBS', 'STR1', 'TOW2', 'YAR2', 'V001', 'ADVE'],
    # four-character site codes that also occur inside the block headers / comment lines of the format ('+SOLUTION/ESTIMATE'[14:18]
    # is 'MATE' - Matera, a real station; '*INDEX TYPE__ CODE ...'): a code is a code only in the code column of a data line
    'keywords': ['MATE', 'CODE', 'SITE', 'SOLU', 'ESTI', 'EPOC', 'ENDS', 'TYPE', 'SOLN', 'UNIT'],
    # codes are compared as written: lower / mixed case, digits only, pairs that differ in case only
    'mixedcase': ['ALIC', 'alic', 'Bro1', 'DARW', 'darw', 'h0b2', '0001', 'KARR', 'karr', 'mObS'],
}
_NAMES = [None]


def set_names(which):
    _NAMES[0] = which


def codes(n):
    return NAME_SETS[_NAMES[0]][:n]


ORDERS = ['station', 'posvel', 'velfirst', 'pairs', 'reversed']


def order_perm(nstn, vel, order):
    """positions (in the station-major list STAX STAY STAZ [VELX VELY VELZ] per station) in the order they are written:
    station  : station by station, positions then velocities          (the usual layout)
    posvel   : all positions station by station, then all velocities
    velfirst : station by station, velocities before positions
    pairs    : station by station, STAX VELX STAY VELY STAZ VELZ
    reversed : stations in reverse order"""
    per = 6 if vel else 3
    base = [[per * i + k for k in range(per)] for i in range(nstn)]
    if order == 'station':
        return [j for b in base for j in b]
    if order == 'reversed':
        return [j for b in reversed(base) for j in b]
    if not vel:
        return [j for b in base for j in b]
    if order == 'posvel':
        return [j for b in base for j in b[:3]] + [j for b in base for j in b[3:]]
    if order == 'velfirst':
        return [j for b in base for j in b[3:] + b[:3]]
    if order == 'pairs':
        return [j for b in base for j in (b[0], b[3], b[1], b[4], b[2], b[5])]
    raise ValueError(order)


def model(nstn, soln, vel, blockdiag=False, order='station', dup=0, cancel=False):
    """dup    : the first `dup` sites carry TWO solutions (solution numbers soln and soln + 1: a discontinuity), i.e. two
                parameter groups and two SOLUTION/EPOCHS lines but ONE SITE/ID line each
       cancel : some covariance lines hold values that cancel exactly (c, -c, 0 / c, c, -2c): they are not all-zero lines"""
    st = []
    for i, c in enumerate(codes(nstn)):
        st.append((c, soln))
        if i < dup:
            st.append((c, soln + 1))
    npar = len(st) * (6 if vel else 3)
    nstn = len(st)
    est, sd = [], []
    for i, (c, s) in enumerate(st):
        for k, t in enumerate(TYPES6 if vel else TYPES3):
            if t.startswith('STA'):
                v = (-4.0e6 + 1.234567890123e5 * i + 1.0e3 * k) * (1 if k != 1 else -1.07) + 0.123456789 * (i + 1)
                s_ = 1.0e-3 * (1 + 0.1 * i + 0.01 * k)
            else:
                v = (-0.04 + 0.003 * i + 0.01 * k) * (1 if k != 2 else -1)
                s_ = 1.0e-4 * (1 + 0.1 * i + 0.01 * k)
            est.append(v)
            sd.append(s_)
    rng = np.arange(1, npar + 1, dtype=float)
    B = np.sin(np.outer(rng, rng) * 0.37) * 0.3 + np.eye(npar)
    Q = B @ B.T * 1e-6
    if blockdiag:
        per = 6 if vel else 3
        mask = np.kron(np.eye(nstn), np.ones((per, per)))
        Q = np.where(mask > 0, Q, 0.0)
    Q = (Q + Q.T) / 2
    if cancel and npar >= 6:
        for (i, vals) in ((3, (2.5e-7, -2.5e-7, 0.0)), (4, (1.25e-7, 1.25e-7, -2.5e-7)), (npar - 1, (-3.0e-8, 0.0, 3.0e-8))):
            for j, v in enumerate(vals):
                Q[i, j] = Q[j, i] = v
    # values as they survive the %21.14e text
    Q = np.array([[float('%21.14e' % v) for v in row] for row in Q])
    est = [float('%21.14e' % v) for v in est]
    sd = [float('%11.5e' % v) for v in sd]
    heights = [100.5 + 37.5 * i for i in range(nstn)]
    sites = []
    for c, s in st:
        if c not in sites:
            sites.append(c)
    m = {'stations': st, 'sites': sites, 'vel': vel, 'est': est, 'sd': sd, 'Q': Q, 'heights': heights}
    if order != 'station':
        perm = order_perm(nstn, vel, order)
        pl = param_list(m)
        m['params'] = [pl[j] for j in perm]
        m['est'] = [est[j] for j in perm]
        m['sd'] = [sd[j] for j in perm]
        m['Q'] = Q[np.ix_(perm, perm)]
        m['order'] = order
    return m


def domes(i):
    return '%05dM001' % (50130 + i)          # nine characters for every station index


def site_lonlat(i):
    """approximate longitude / latitude fields of station i (text) and their values in degrees; stations 1 and 2 sit just
    south / north of the equator and on the Greenwich / 360-degree edge (degree fields '-0', ' 0', '359')"""
    if i == 1:
        return '  0  7 12.5', ' -0 44 34.8', 7 / 60 + 12.5 / 3600, -(44 / 60 + 34.8 / 3600)
    if i == 2:
        return '359 59 59.9', '  0 12 10.0', 359 + 59 / 60 + 59.9 / 3600, 12 / 60 + 10.0 / 3600
    lon = (115 + 3 * i, 7 + i, 12.5 + i)
    lat = (12 + 2 * i, 50 - i, 37.9 - i)
    return ('%3d %2d %4.1f' % lon, '%3d %2d %4.1f' % (-lat[0], lat[1], lat[2]), lon[0] + lon[1] / 60 + lon[2] / 3600,
            -(lat[0] + lat[1] / 60 + lat[2] / 3600))


def param_list(m):
    if 'params' in m:
        return list(m['params'])
    out = []
    for c, s in m['stations']:
        for t in (TYPES6 if m['vel'] else TYPES3):
            out.append((t, c, s))
    return out


def header_line(npar, vel, ctime='20:100:43200'):
    h = '%%=SNX 2.02 AUS %s AUS 20:093:00000 20:100:00000 P %05d 2 X' % (ctime, npar)
    if vel:
        h += ' V'
    return h


def write(path, m, tri='L', extra=False):
    pl = param_list(m)
    npar = len(pl)
    L = [header_line(npar, m['vel'], m.get('ctime', '20:100:43200')), SEP]
    if extra:   
        # blocks the editing functions do not know, as real solutions carry them
        L += ['+FILE/REFERENCE', ' DESCRIPTION        gpmc synthetic solution', ' SOFTWARE           none', '-FILE/REFERENCE', SEP]
    L += ['+FILE/COMMENT', '* synthetic solution generated by gpmc.snxgen', '* second comment line 12 00012 V',
         '-FILE/COMMENT', SEP, '+SITE/ID', '*CODE PT __DOMES__ T _STATION DESCRIPTION__ APPROX_LON_ APPROX_LAT_ _APP_H_']
    for i, c in enumerate(m.get('sites') or [c for c, s in m['stations']]):
        lon, lat = site_lonlat(i)[:2]
        L.append(' %4s %2s %9s %1s %-22s %11s %11s %7.1f' % (c, 'A', domes(i), 'P', 'Stn %s Australia' % c, lon, lat, m['heights'][i]))
    L += ['-SITE/ID', SEP, '+SOLUTION/EPOCHS', '*CODE PT SOLN T _DATA_START_ __DATA_END__ _MEAN_EPOCH_']
    for c, s in m['stations']:
        L.append(' %4s %2s %4d %1s %s %s %s' % (c, 'A', s, 'P', '20:093:00000', '20:100:00000', '20:096:43200'))
    L += ['-SOLUTION/EPOCHS', SEP]
    if extra:
        L += ['+SOLUTION/STATISTICS', ' NUMBER OF OBSERVATIONS            %d' % (1000 * npar), ' VARIANCE FACTOR              1.000000000000000', '-SOLUTION/STATISTICS', SEP]
    L += ['+SOLUTION/ESTIMATE', '*INDEX TYPE__ CODE PT SOLN _REF_EPOCH__ UNIT S __ESTIMATED VALUE____ _STD_DEV___']
    for i, (t, c, s) in enumerate(pl):
        unit = 'm' if t.startswith('STA') else 'm/y'
        L.append(' %5d %-6s %4s %2s %4d %s %-4s %1s %21.14e %11.5e' % (i + 1, t, c, 'A', s, '20:096:43200', unit, '2', m['est'][i], m['sd'][i]))
    L += ['-SOLUTION/ESTIMATE', SEP, '+SOLUTION/MATRIX_ESTIMATE %s COVA' % tri, '*PARA1 PARA2 ____PARA2+0__________ ____PARA2+1__________ ____PARA2+2__________']
    Q = m['Q']
    for i in range(npar):
        cols = list(range(0, i + 1)) if tri == 'L' else list(range(i, npar))
        for a in range(0, len(cols), 3):
            chunk = cols[a:a + 3]
            L.append(' %5d %5d' % (i + 1, chunk[0] + 1) + ''.join(' %21.14e' % Q[i, j] for j in chunk))
    L += ['-SOLUTION/MATRIX_ESTIMATE %s COVA' % tri, '%ENDSNX']
    # comment lines are optional everywhere in SINEX: 'none' writes the data blocks without their column-header comments,
    # 'double' with a second comment line under each of them (producers differ)
    cm = m.get('comments')
    if cm == 'none':
        keep_until = L.index('-FILE/COMMENT')
        L = [ln for i, ln in enumerate(L) if i <= keep_until or not ln.startswith('*') or ln == SEP]
    elif cm == 'double':
        L2 = []
        keep_until = L.index('-FILE/COMMENT')
        for i, ln in enumerate(L):
            L2.append(ln)
            if i > keep_until and ln.startswith('*') and ln != SEP:
                L2.append('* (units: metres, metres / year; epochs YY:DDD:SSSSS)')
        L = L2
    with open(path, 'w') as f:
        f.write('\n'.join(L) + '\n')
    return L


class Malformed(Exception):
    pass


def parse(path):
    """strict parser; raises Malformed with the reason"""
    with open(path) as f:
        text = f.read()
    if not text.endswith('\n'):
        raise Malformed('file does not end with a newline')
    lines = text.split('\n')[:-1]
    if not lines or lines[-1] != '%ENDSNX':
        raise Malformed('last line is not %ENDSNX on its own line: ' + repr(lines[-1][:60] if lines else None))
    h = lines[0]
    if len(h) not in (69, 71) or not h.startswith('%=SNX 2.02 '):
        raise Malformed('header line has width %d (expected 69, or 71 with velocities): %r' % (len(h), h))
    for pos in (5, 10, 14, 27, 31, 44, 57, 59, 65, 67):
        if h[pos] != ' ':
            raise Malformed('header field separator missing at column %d: %r' % (pos, h))
    ct = h[15:27]
    if not (ct[2] == ':' and ct[6] == ':' and ct[:2].isdigit() and ct[3:6].isdigit() and ct[7:].isdigit() and len(ct[7:]) == 5):
        raise Malformed('creation time is not YY:DDD:SSSSS: %r' % ct)
    if not (0 <= int(ct[7:]) < 86400 and 1 <= int(ct[3:6]) <= 366):
        raise Malformed('creation time out of range: %r' % ct)
    if not h[60:65].isdigit():
        raise Malformed('parameter count is not a 5-digit field: %r' % h[60:65])
    out = {'header': h, 'npar': int(h[60:65]), 'vel': len(h) == 71 and h[70] == 'V', 'creation': ct, 'blocks': {}, 'lines': lines}
    if len(h) == 71 and h[69:71] != ' V':
        raise Malformed('unexpected solution-content field: %r' % h[68:])
    if h[68] != 'X':
        raise Malformed('solution content X missing: %r' % h[66:])
    cur = None
    for ln in lines[1:-1]:
        if ln.startswith('+'):
            if cur is not None:
                raise Malformed('block %s not closed before %s' % (cur, ln))
            cur = ln.split()[0][1:]
            if cur in out['blocks']:
                raise Malformed('block %s appears twice' % cur)
            out['blocks'][cur] = {'open': ln, 'lines': []}
        elif ln.startswith('-'):
            name = ln.split()[0][1:]
            if cur != name:
                raise Malformed('closing line %r does not match the open block %r' % (ln, cur))
            if ln != '-' + out['blocks'][cur]['open'][1:]:
                raise Malformed('closing line %r is not the block name on its own line' % ln)
            cur = None
        elif ln.startswith('%'):
            raise Malformed('unexpected %% line inside the file: %r' % ln)
        else:
            if cur is not None:
                out['blocks'][cur]['lines'].append(ln)
            elif not ln.startswith('*'):
                raise Malformed('data line outside any block: %r' % ln[:60])
    if cur is not None:
        raise Malformed('block %s never closed' % cur)
    for need in ('FILE/COMMENT', 'SITE/ID', 'SOLUTION/EPOCHS', 'SOLUTION/ESTIMATE', 'SOLUTION/MATRIX_ESTIMATE'):
        if need not in out['blocks']:
            raise Malformed('block %s missing' % need)
    # estimates
    est = []
    for ln in out['blocks']['SOLUTION/ESTIMATE']['lines']:
        if ln.startswith('*'):
            continue
        if len(ln) != 80 or ln[0] != ' ' or ln[6] != ' ' or ln[13] != ' ' or ln[46] != ' ' or ln[68] != ' ':
            raise Malformed('estimate line not in fixed columns: %r' % ln)
        est.append({'index': int(ln[1:6]), 'type': ln[7:13].strip(), 'code': ln[14:18], 'soln': ln[22:26].strip(), 'epoch': ln[27:39],
                    'value': float(ln[47:68]), 'sd': float(ln[69:80]), 'rest': ln[6:]})
    out['est'] = est
    if [e['index'] for e in est] != list(range(1, len(est) + 1)):
        raise Malformed('estimates are not numbered consecutively from 1: %r' % [e['index'] for e in est][:12])
    # matrix
    mb = out['blocks']['SOLUTION/MATRIX_ESTIMATE']
    tri = mb['open'].split()[1]
    n = len(est)
    Q = np.full((n, n), np.nan)
    for ln in mb['lines']:
        if ln.startswith('*'):
            continue
        if ln[0] != ' ' or ln[6] != ' ' or ln[12] != ' ':
            raise Malformed('matrix line not in fixed columns: %r' % ln[:80])
        try:
            r, c = int(ln[1:6]), int(ln[7:12])
        except ValueError:
            raise Malformed('matrix line indices unreadable: %r' % ln[:80])
        vals = ln[12:].split()
        if not (1 <= len(vals) <= 3):
            raise Malformed('matrix line with %d values: %r' % (len(vals), ln[:100]))
        for k, v in enumerate(vals):
            cc = c + k
            if not (1 <= r <= n and 1 <= cc <= n):
                raise Malformed('matrix element (%d,%d) outside the %d parameters' % (r, cc, n))
            if (tri == 'L' and cc > r) or (tri == 'U' and cc < r):
                raise Malformed('matrix element (%d,%d) on the wrong side of the %s triangle' % (r, cc, tri))
            Q[r - 1, cc - 1] = Q[cc - 1, r - 1] = float(v)
    out['tri'] = tri
    out['Q'] = Q
    out['site_lines'] = [ln for ln in out['blocks']['SITE/ID']['lines'] if not ln.startswith('*')]
    out['epoch_lines'] = [ln for ln in out['blocks']['SOLUTION/EPOCHS']['lines'] if not ln.startswith('*')]
    return out
