"""Deterministic scheduler for real CPython threads + preemption-bounded schedule enumeration (C09).

Every thread body runs in a real threading.Thread under sys.settrace; a *scheduling point* is a 'line' (or
'opcode') event in a frame whose code lives in one of the traced files.  Only one thread runs at a time (baton =
one semaphore per thread); at every scheduling point the controller picks the next thread from the enabled ones
in canonical order (running thread first, then ascending ids) according to the schedule being replayed, default
choice 0.  explore() is iterative context bounding: run the default schedule, then branch on every alternative
whose preemption cost stays within the bound.

The library has no locks, I/O waits or spin loops, so every execution terminates; a horizon guards against a
mutant that introduces a loop.
"""
import os
import sys
import threading


class Divergence(Exception):
    pass


class Deadlock(Exception):
    """a thread waits for a lock that nobody will release (its holder has finished, or every thread waits)"""


# ---------------------------------------------------------------------------------------------------------------------
# locks of the library under a deterministic scheduler.  A thread that is preempted while it holds a real lock, followed by a
# thread that blocks on that lock, would hang the scheduler (the holder waits for the baton, the baton holder waits for the lock).
# Module-level locks of the library are therefore replaced by cooperative proxies: a blocked acquire hands the baton to another
# thread (a forced switch, not a preemption) and retries; when no other thread can run the wait is a deadlock.
_CURRENT = [None]          # the Execution in progress (one at a time per process)


class CoopLock(object):
    def __init__(self, real, name='?'):
        self._real = real
        self._name = name

    def acquire(self, blocking=True, timeout=-1):
        if self._real.acquire(False):
            return True
        if not blocking:
            return False
        ex = _CURRENT[0]
        tid = ex._tid_of_current_thread() if ex is not None else None
        if tid is None:
            # not under the scheduler (sequential phase): a lock that stays taken here was left behind by a call that has returned
            if self._real.acquire(True, 3.0):
                return True
            raise Deadlock('lock %s still held 3 s after every call has returned' % self._name)
        for _ in range(100000):
            if not ex._yield_blocked(tid):
                raise Deadlock('lock %s: no other thread can run and release it' % self._name)
            if self._real.acquire(False):
                return True
        raise Deadlock('lock %s: not released after 100000 hand-overs' % self._name)

    def release(self):
        return self._real.release()

    def locked(self):
        return self._real.locked() if hasattr(self._real, 'locked') else None

    __enter__ = acquire

    def __exit__(self, *a):
        self._real.release()

    def __getattr__(self, k):
        return getattr(self._real, k)


def instrument_locks():
    """replaces module-level lock objects of the library (geodepy.*, api.*) by cooperative proxies; idempotent"""
    import _thread
    import threading
    kinds = (type(_thread.allocate_lock()), type(threading.RLock()))
    n = 0
    for mname, m in list(sys.modules.items()):
        if m is None or not (mname == 'geodepy' or mname.startswith('geodepy.') or mname in ('api', 'api.app')):
            continue
        for k, v in list(vars(m).items()):
            if isinstance(v, kinds):
                setattr(m, k, CoopLock(v, '%s.%s' % (mname, k)))
                n += 1
    return n


class Horizon(Exception):
    pass


def warm_opcode_tracing():
    """CPython 3.12 switches per-instruction events on lazily: the first traced execution of a process would see line
    events only.  Tracing a harmless local function once with f_trace_opcodes set turns the instrumentation on for the
    whole interpreter, so that the very first real execution (in particular in a freshly forked interpreter) already has
    opcode granularity.  No library code runs here."""
    def dummy():
        x = 1
        return x + 1

    def loc(frame, event, arg):
        return loc

    def glob(frame, event, arg):
        if event == 'call':
            frame.f_trace_opcodes = True
            return loc
    sys.settrace(glob)
    try:
        dummy()
        dummy()
    finally:
        sys.settrace(None)


class Execution(object):
    def __init__(self, bodies, traced_files, prefix, opcode=False, horizon=200000):
        self.bodies = bodies
        self.traced = traced_files          # set of real paths; a frame in one of them yields scheduling points
        self.prefix = list(prefix)
        self.opcode = opcode
        self.horizon = horizon
        self.n = len(bodies)
        self.sems = [threading.Semaphore(0) for _ in range(self.n)]
        self.done = [False] * self.n
        self.results = [None] * self.n
        self.errors = [None] * self.n
        self.points = []                    # (enabled tuple in canonical order, running_still_enabled)
        self.choices = []
        self.trace_log = []                 # thread id chosen at each point (the schedule, for replays)
        self.main_sem = threading.Semaphore(0)
        self.running = None
        self.fatal = None
        self._fcache = {}
        self._idents = {}                   # thread ident -> thread index

    # -- scheduling ---------------------------------------------------------------------
    def _enabled(self, cur):
        en = [i for i in range(self.n) if not self.done[i]]
        if cur is not None and cur in en:
            en.remove(cur)
            en.insert(0, cur)
        return en

    def _decide(self, cur):
        """called by the running thread (or on its completion); returns next thread id or None"""
        en = self._enabled(cur)
        if not en:
            return None
        if len(en) == 1:
            return en[0]                    # no choice: not a scheduling decision
        idx = len(self.choices)
        if idx < len(self.prefix):
            c = self.prefix[idx]
            if c >= len(en):
                self.fatal = Divergence('replay diverged: choice %d at point %d but only %d enabled' % (c, idx, len(en)))
                c = 0
        else:
            c = 0
        self.points.append((tuple(en), cur is not None and not self.done[cur] and cur in en))
        self.choices.append(c)
        self.trace_log.append(en[c])
        if len(self.choices) > self.horizon:
            self.fatal = Horizon('more than %d scheduling decisions' % self.horizon)
            return en[0]
        return en[c]

    def _tid_of_current_thread(self):
        return self._idents.get(threading.get_ident())

    def _yield_blocked(self, tid):
        """called by a thread that waits for a lock: hands the baton to another unfinished thread (round robin) and returns True when
        the baton comes back; False if there is nobody else to run"""
        others = [i for i in range(self.n) if not self.done[i] and i != tid]
        if not others or self.fatal is not None:
            return False
        nxt = others[0] if tid + 1 >= self.n or self.done[(tid + 1) % self.n] or (tid + 1) % self.n == tid else (tid + 1) % self.n
        if nxt not in others:
            nxt = others[0]
        self.trace_log.append(('lock-wait', tid, nxt))
        self.running = nxt
        self.sems[nxt].release()
        self.sems[tid].acquire()
        return True

    def _point(self, tid):
        nxt = self._decide(tid)
        if nxt is not None and nxt != tid:
            self.running = nxt
            self.sems[nxt].release()
            self.sems[tid].acquire()

    # -- tracing ------------------------------------------------------------------------
    def _is_traced(self, code):
        fn = code.co_filename
        r = self._fcache.get(fn)
        if r is None:
            r = os.path.realpath(fn) in self.traced
            self._fcache[fn] = r
        return r

    def _make_tracer(self, tid):
        ex = self

        def local(frame, event, arg):
            if ex.opcode and not frame.f_trace_opcodes:
                frame.f_trace_opcodes = True
            if event == 'line' or (ex.opcode and event == 'opcode'):
                if ex.fatal is None:
                    ex._point(tid)
            return local

        def noop(frame, event, arg):
            return noop

        def glob(frame, event, arg):
            if event == 'call' and ex._is_traced(frame.f_code):
                if ex.opcode:
                    frame.f_trace_opcodes = True
                return local
            # CPython 3.12 delivers 'opcode' events to a traced frame only if its callers carry a local trace function too
            return noop if ex.opcode else None
        return glob

    def _run_thread(self, tid):
        self._idents[threading.get_ident()] = tid
        self.sems[tid].acquire()            # wait for the baton
        sys.settrace(self._make_tracer(tid))
        try:
            self.results[tid] = self.bodies[tid]()
        except BaseException as e:          # the body's own outcome
            self.errors[tid] = e
        finally:
            sys.settrace(None)
            self.done[tid] = True
            nxt = self._decide(None)
            if nxt is None:
                self.main_sem.release()
            else:
                self.running = nxt
                self.sems[nxt].release()

    def run(self):
        instrument_locks()
        _CURRENT[0] = self
        try:
            return self._run()
        finally:
            _CURRENT[0] = None

    def _run(self):
        if self.opcode:
            warm_opcode_tracing()
        threads = [threading.Thread(target=self._run_thread, args=(i,), name='T%d' % i, daemon=True) for i in range(self.n)]
        for t in threads:
            t.start()
        first = self._decide(None)
        self.running = first
        self.sems[first].release()
        self.main_sem.acquire()
        for t in threads:
            t.join(30)
        if self.fatal is not None:
            raise self.fatal
        return self


def preemptions(points, choices, upto):
    c = 0
    for i in range(upto):
        if points[i][1] and choices[i] != 0:
            c += 1
    return c


def explore(run_one, bound, check, part=None, max_exec=None):
    """enumerates every schedule with at most `bound` preemptions.
    run_one(prefix) executes ONE schedule (typically in a forked pristine interpreter) and returns a dict with
    'points' [(enabled tuple, running_still_enabled)], 'choices' [...] and whatever check() needs.
    check(record) is called for each complete execution.  part=(k, n) restricts the FIRST PREEMPTION to point indices i
    with i % n == k (partition of the schedule space over workers; the union over k is the whole space).  Returns statistics."""
    stats = {'executions': 0, 'max_points': 0, 'capped': False, 'bound': bound}
    stack = [[]]
    while stack:
        prefix = stack.pop()
        ex = run_one(prefix)
        if list(ex['choices'][:len(prefix)]) != list(prefix):
            raise Divergence('replayed prefix not reproduced')
        stats['executions'] += 1
        stats['max_points'] = max(stats['max_points'], len(ex['points']))
        check(ex)
        if max_exec is not None and stats['executions'] >= max_exec:
            stats['capped'] = True
            break
        for i in range(len(prefix), len(ex['points'])):
            en, running_enabled = ex['points'][i]
            cost = preemptions(ex['points'], ex['choices'], i)
            if part is not None and cost == 0 and running_enabled and i % part[1] != part[0]:
                # the partition is by the position of the FIRST PREEMPTION (free choices - which thread starts, which one
                # continues when another has finished - are explored in every part)
                continue
            if running_enabled:
                cost += 1
            if cost > bound:
                continue
            for alt in range(1, len(en)):
                stack.append(list(ex['choices'][:i]) + [alt])
    return stats
