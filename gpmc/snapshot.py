"""Canonical deep snapshots of library state, argument/result canonicalisation and the write barrier (C09).

  canon(x)                 : hashable, bit-exact canonical form (floats as hex, arrays as dtype/shape/bytes,
                             objects as (class, sorted vars)), cycle- and depth-guarded
  constants_registry()     : every Ellipsoid / Projection / Transformation / TransformationSD instance reachable
                             from geodepy.constants, by name
  snap_constants()         : canonical snapshot of those (the invariant of C09)
  snap_modules()           : canonical snapshot of all OTHER module-level data of geodepy.* (and api.app):
                             globals that are not modules/functions/classes, function defaults, closure cells,
                             class attributes (observed only: a cache is not a violation, but it re-enables
                             scheduling points in its module)
  Barrier                  : records every attribute write/delete on a registered (shared) constant
"""
import sys
import threading
import types

import numpy as np

MAXD = 6


def canon(x, depth=0, seen=None):
    if x is None or isinstance(x, (bool, int, str, bytes)):
        return x
    if isinstance(x, float):
        return ('f', x.hex())
    if isinstance(x, np.generic):
        return ('npg', str(x.dtype), x.tobytes().hex())
    if isinstance(x, np.ndarray):
        # the array OBJECT, not only its numbers: an array left write-protected is a changed array
        return ('nd', str(x.dtype), x.shape, x.tobytes().hex() if x.dtype != object else repr(x.tolist())) + (() if x.flags.writeable else ('read-only',))
    if depth > MAXD:
        return ('deep', type(x).__name__)
    if seen is None:
        seen = set()
    if id(x) in seen:
        return ('cycle', type(x).__name__)
    if isinstance(x, (list, tuple)):
        seen = seen | {id(x)}
        return (type(x).__name__,) + tuple(canon(v, depth + 1, seen) for v in x)
    if isinstance(x, (set, frozenset)):
        return ('set',) + tuple(sorted(repr(canon(v, depth + 1, seen)) for v in x))
    if isinstance(x, dict):
        seen = seen | {id(x)}
        return ('dict',) + tuple(sorted((repr(k), canon(v, depth + 1, seen)) for k, v in x.items()))
    if isinstance(x, BaseException):
        return ('exc', type(x).__name__)
    if isinstance(x, (types.FunctionType, types.BuiltinFunctionType, types.MethodType, type, types.ModuleType)):
        return ('ref', getattr(x, '__module__', ''), getattr(x, '__qualname__', getattr(x, '__name__', '')))
    if hasattr(x, 'cache_info') and callable(getattr(x, 'cache_info')):
        try:
            return ('lru', repr(x.cache_info()))
        except Exception:
            pass
    if hasattr(x, 'isoformat'):
        return ('date', x.isoformat())
    if hasattr(x, '__dict__'):
        seen = seen | {id(x)}
        extra = ()
        if isinstance(x, float):        # DECAngle is a float subclass
            extra = (('__float__', float(x).hex()),)
        # state an object shares with its class: mutable containers defined at class level (and on the library's base classes) are
        # part of what every instance shows (x.notes, repr(x)) although they are in no instance dictionary (repr itself is not
        # evaluated here: it is library code and would run inside the scheduled threads)
        cls_state = ()
        for klass in type(x).__mro__:
            if getattr(klass, '__module__', '').startswith(('geodepy', 'api')):
                for k, v in vars(klass).items():
                    if isinstance(v, (list, dict, set, bytearray, np.ndarray)) and not k.startswith('__'):
                        cls_state += (('class:' + klass.__name__ + '.' + k, canon(v, depth + 1, seen)),)
        return ('obj', type(x).__name__) + extra + tuple(sorted((k, canon(v, depth + 1, seen)) for k, v in vars(x).items())) + cls_state
    return ('repr', repr(x)[:200])


def lib_modules():
    out = {}
    for name, m in list(sys.modules.items()):
        if m is None:
            continue
        if name == 'geodepy' or name.startswith('geodepy.') or name in ('api', 'api.app'):
            if name.startswith('geodepy.tests'):
                continue
            out[name] = m
    return out


def constants_registry():
    import geodepy.constants as gc
    kinds = (gc.Ellipsoid, gc.Projection, gc.Transformation, gc.TransformationSD)
    reg = {}
    for name, v in vars(gc).items():
        if isinstance(v, kinds):
            reg[name] = v
    # uncertainty objects reachable only through a transformation
    for name, v in list(reg.items()):
        sd = getattr(v, 'tf_sd', None)
        if isinstance(sd, kinds) and all(sd is not o for o in reg.values()):
            reg[name + '.tf_sd'] = sd
    return reg


def snap_constants(reg=None):
    reg = reg or constants_registry()
    return tuple((name, canon(o)) for name, o in sorted(reg.items()))


def _func_state(f, depth=0):
    out = []
    if getattr(f, '__defaults__', None):
        out.append(('defaults', canon(f.__defaults__)))
    if getattr(f, '__kwdefaults__', None):
        out.append(('kwdefaults', canon(f.__kwdefaults__)))
    if getattr(f, '__closure__', None):
        cells = []
        for c in f.__closure__:
            try:
                cells.append(canon(c.cell_contents))
            except ValueError:
                cells.append('empty')
        out.append(('closure', tuple(cells)))
    if getattr(f, '__dict__', None):
        out.append(('fattrs', canon(dict(f.__dict__))))
    return tuple(out)


def snap_modules(exclude_constants=True):
    """module name -> canonical snapshot of its data (everything except the C09 constants themselves)"""
    reg_ids = {id(o) for o in constants_registry().values()} if exclude_constants else set()
    out = {}
    for mname, m in sorted(lib_modules().items()):
        items = []
        for k, v in sorted(vars(m).items()):
            if k.startswith('__') and k.endswith('__'):
                continue
            if id(v) in reg_ids:
                continue
            if isinstance(v, types.ModuleType):
                continue
            if (type(v).__module__ or '').split('.')[0] in ('flask', 'werkzeug', 'jinja2', 'click', 'itsdangerous'):
                continue        # the web framework's own objects (application, request proxy) are not library data
            if hasattr(v, 'cache_info') and not isinstance(v, type):
                items.append((k, canon(v)))
                continue
            if isinstance(v, (types.FunctionType,)):
                if getattr(v, '__module__', None) == mname:
                    st = _func_state(v)
                    if st:
                        items.append((k, ('func',) + st))
                continue
            if isinstance(v, type):
                if getattr(v, '__module__', None) == mname:
                    cattrs = []
                    for ck, cv in sorted(vars(v).items()):
                        if ck.startswith('__') and ck.endswith('__') and ck not in ('__defaults__',):
                            if not isinstance(cv, types.FunctionType):
                                continue
                        if isinstance(cv, types.FunctionType):
                            st = _func_state(cv)
                            if st:
                                cattrs.append((ck, st))
                        elif isinstance(cv, (staticmethod, classmethod, property)):
                            continue
                        else:
                            cattrs.append((ck, canon(cv)))
                    if cattrs:
                        items.append((k, ('class',) + tuple(cattrs)))
                continue
            if isinstance(v, (types.BuiltinFunctionType,)):
                continue
            items.append((k, canon(v)))
        out[mname] = tuple(items)
    return out


def snap_process():
    """process-wide interpreter state that a library call has no business changing: warning filters, decimal context, numpy
    error state and print options, locale, working directory, TZ, recursion limit, switch interval, sys.path, signal handlers"""
    import decimal
    import locale
    import os
    import signal
    import warnings
    import numpy as np
    ctx = decimal.getcontext()
    out = {
        'warnings.filters': tuple((f[0], getattr(f[1], 'pattern', f[1]), getattr(f[2], '__name__', f[2]), getattr(f[3], 'pattern', f[3]), f[4]) for f in warnings.filters),
        'warnings.showwarning': getattr(warnings.showwarning, '__qualname__', repr(warnings.showwarning)),
        'decimal': (ctx.prec, ctx.rounding, ctx.Emin, ctx.Emax, ctx.capitals, ctx.clamp, tuple(sorted(str(t) for t, v in ctx.traps.items() if v))),
        'np.geterr': tuple(sorted(np.geterr().items())),
        'np.printoptions': tuple(sorted((k, repr(v)) for k, v in np.get_printoptions().items())),
        'locale': locale.setlocale(locale.LC_ALL),
        'cwd': os.getcwd(),
        'TZ': os.environ.get('TZ'),
        'environ_keys': tuple(sorted(os.environ)),
        'recursionlimit': sys.getrecursionlimit(),
        'switchinterval': sys.getswitchinterval(),
        'sys.path': tuple(sys.path),
        'sigalrm': repr(signal.getsignal(signal.SIGALRM))[:60] if hasattr(signal, 'SIGALRM') else None,
        'float_repr_style': sys.float_repr_style,
        'trace': sys.gettrace() is None,
    }
    return out


def diff_process(a, b):
    return sorted(k for k in a if a[k] != b.get(k))


def diff_modules(a, b):
    """names of modules whose data snapshot differs, with the differing keys"""
    out = {}
    for m in set(a) | set(b):
        if a.get(m) != b.get(m):
            da, db = dict(a.get(m, ())), dict(b.get(m, ()))
            out[m] = sorted(k for k in set(da) | set(db) if da.get(k) != db.get(k))
    return out


class Barrier(object):
    """write barrier on the four constant classes: records (object name, attribute, old, new, thread) for every
    attribute write or delete on a registered shared instance, so transient writes are seen as well as net changes"""

    def __init__(self):
        import geodepy.constants as gc
        self.gc = gc
        self.classes = (gc.Ellipsoid, gc.Projection, gc.Transformation, gc.TransformationSD)
        self.names = {}
        self.log = []
        self.installed = False
        self._orig = {}

    def register_all(self):
        for name, o in constants_registry().items():
            self.names[id(o)] = name

    def install(self):
        if self.installed:
            return
        self.register_all()
        barrier = self
        for cls in self.classes:
            self._orig[cls] = (cls.__dict__.get('__setattr__'), cls.__dict__.get('__delattr__'))

            def _set(obj, attr, value, _cls=cls):
                nm = barrier.names.get(id(obj))
                if nm is not None:
                    barrier.log.append((nm, attr, canon(getattr(obj, attr, '<unset>')), canon(value),
                                        threading.current_thread().name))
                object.__setattr__(obj, attr, value)

            def _del(obj, attr, _cls=cls):
                nm = barrier.names.get(id(obj))
                if nm is not None:
                    barrier.log.append((nm, attr, canon(getattr(obj, attr, '<unset>')), '<deleted>',
                                        threading.current_thread().name))
                object.__delattr__(obj, attr)
            cls.__setattr__ = _set
            cls.__delattr__ = _del
        self.installed = True

    def take(self):
        out, self.log = self.log, []
        return out
