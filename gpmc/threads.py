"""Per-property schedule exploration: two (or three) threads, each executing one call of the property's own API with its
OWN inputs (different from the other thread's, so that state shared behind the API shows as a wrong number), under the
deterministic scheduler of gpmc.sched; every interleaving with at most `bound` preemptions at line granularity of the
named library modules.  Oracle: each call's result must equal (gpmc.cfg.flat) the result of the same call executed alone.

A case is {'calls': [name, ...], 'bound': b} (+ 'schedule' in replays).  The check module supplies
    CALLS   name -> zero-argument factory returning a zero-argument callable (arguments are rebuilt for every execution)
    FILES   library files (relative to the repository) whose lines are scheduling points
"""
import os

from gpmc import cfg, sched
from gpmc.core import REPO, HarnessError


MAX_POINTS_BOUND2 = 90
MAX_POINTS = 8000


def _outcome(fn):
    try:
        return ('ok', cfg.flat(fn()))
    except Exception as e:
        return ('raise', type(e).__name__, str(e)[:160])


def in_child(fn):
    """fn() in a forked copy of this interpreter (a fresh copy for every schedule: state left behind by one interleaving
    cannot reach the next)"""
    import pickle
    r, w = os.pipe()
    pid = os.fork()
    if pid == 0:
        try:
            os.close(r)
            try:
                out = ('ok', fn())
            except BaseException:
                import traceback
                out = ('err', traceback.format_exc())
            with os.fdopen(w, 'wb') as f:
                pickle.dump(out, f)
        finally:
            os._exit(0)
    os.close(w)
    try:
        with os.fdopen(r, 'rb') as f:
            data = f.read()
        os.waitpid(pid, 0)
    except BaseException:
        try:
            os.kill(pid, 9)
            os.waitpid(pid, 0)
        except OSError:
            pass
        raise
    out = pickle.loads(data)
    if out[0] == 'err':
        raise HarnessError('child failed:\n' + out[1])
    return out[1]


def pairs(names, bound, same=True, triple=None):
    out = []
    for i, a in enumerate(names):
        for b in names[i if same else i + 1:]:
            out.append({'calls': [a, b], 'bound': bound})
    if triple:
        out.append({'calls': list(triple), 'bound': 1})
    return out


def evaluate(case, rec, calls, files, site, min_points=2):
    fl = {os.path.realpath(os.path.join(REPO, f)) for f in files}
    names = case['calls']
    from gpmc import snapshot as snp

    def alone():
        fs = [calls[n]() for n in names]                  # arguments built (this may import a module)
        before = snp.snap_modules(exclude_constants=False)
        r1 = [_outcome(f) for f in fs]                    # each call alone, first
        after = snp.snap_modules(exclude_constants=False)
        dirty = sorted(m for m in snp.diff_modules(before, after) if m in before and m in after)
        r2 = [_outcome(calls[n]()) for n in names]        # ... and again: the reference itself must be repeatable
        return r1, r2, dirty
    # in a forked copy: this process stays as it was (its parent has only imported the library), so that a first-use
    # initialisation racing between two threads is still ahead of every schedule explored below
    ref, ref2, dirty = in_child(alone)
    if ref != ref2:
        rec.fail('the same call gives different results when simply repeated (%s)' % names, site=site + ':repeat', observed=str(ref2)[:300],
                 expected=str(ref)[:300], case=case)
        return
    out = {'bad': [], 'outcomes': set(), 'nbad': 0}
    bound = case['bound']

    def run_one_here(prefix):
        bodies = [(lambda f=calls[n](): _outcome(f)) for n in names]
        ex = sched.Execution(bodies, fl, prefix).run()
        res = [('thread-error', repr(ex.errors[i])[:200]) if ex.errors[i] is not None else ex.results[i] for i in range(len(names))]
        # sequential probe after the concurrent phase: what the interleaving left behind
        after = [_outcome(calls[n]()) for n in names]
        return {'points': ex.points, 'choices': ex.choices, 'res': res, 'after': after}
    # calls that leave module-level data behind (a lazily built table, a cache, a scratch object): every schedule runs in its
    # own forked copy, i.e. from the state in which nothing has been built yet
    mode = {'forked': bool(dirty)}
    if dirty:
        rec.outcome('threads-forked-mode')

    def run_one(prefix):
        return in_child(lambda: run_one_here(prefix)) if mode['forked'] else run_one_here(prefix)

    def check(ex):
        out['outcomes'].add(repr(ex['res']))
        wrong = [('during', i) for i, r in enumerate(ex['res']) if r != ref[i]] + [('after', i) for i, r in enumerate(ex['after']) if r != ref[i]]
        if wrong:
            out['nbad'] += 1
            if len(out['bad']) < 2:
                ph, i = wrong[0]
                got = (ex['res'] if ph == 'during' else ex['after'])[i]
                out['bad'].append({'schedule': list(ex['choices']), 'call': names[i], 'phase': ph, 'got': str(got)[:300], 'expected': str(ref[i])[:300]})
    if 'schedule' in case:
        ex = run_one(case['schedule'])
        ex2 = run_one(case['schedule'])
        if ex['choices'] != ex2['choices']:
            raise HarnessError('replaying a recorded schedule twice gave different traces')
        check(ex)
        st = {'executions': 1, 'max_points': len(ex['points'])}
    else:
        part = tuple(case['part']) if case.get('part') else None
        # the schedule space grows with (scheduling points)^bound: two preemptions are explored where one execution has at
        # most MAX_POINTS_BOUND2 scheduling points, one preemption otherwise (the bound actually used is reported)
        probe = run_one([])
        if len(probe['points']) > MAX_POINTS:
            raise HarnessError('calls %r have %d scheduling points in one execution: too long for an exhaustive schedule exploration '
                               '(choose shorter representative calls)' % (names, len(probe['points'])))
        if bound > 1 and len(probe['points']) > MAX_POINTS_BOUND2:
            bound = 1
            rec.outcome('threads-bound-reduced-to-1')
        try:
            st = sched.explore(run_one, bound, check, part=part)
        except sched.Divergence:
            # the library keeps state between executions (a replayed prefix took another path): every schedule in its own
            # forked interpreter
            out.update({'bad': [], 'outcomes': set(), 'nbad': 0})
            mode['forked'] = True
            st = sched.explore(run_one, bound, check, part=part)
        if st['max_points'] < min_points:
            raise HarnessError('no scheduling points in %r for calls %r: nothing was interleaved' % (files, names))
    rec.transitions += st['executions'] * len(names)
    rec.nontriv((tuple(names), bound, repr(case.get('part'))))
    rec.state(('threads', tuple(names), len(out['outcomes'])))
    rec.dev('schedules', st['executions'])
    rec.dev('scheduling_points', st['max_points'])
    if out['bad']:
        b = out['bad'][0]
        rec.fail('under a thread interleaving of %s the call %s returns something else than when it runs alone (%s the concurrent phase); '
                 '%d of %d schedules' % (names, b['call'], b['phase'], out['nbad'], st['executions']),
                 site=site, observed=b['got'], expected=b['expected'], case=dict(case, schedule=b['schedule']), coords={'calls': names})
        rec.outcome('threads-bad')
    else:
        rec.outcome('threads-ok')
    rec.sample({'calls': names, 'bound': bound, 'schedules': st['executions'], 'scheduling_points': st['max_points'],
                'distinct_outcomes': len(out['outcomes'])})


def make(calls, files, site, quick=None, same=True, triple=None, files_thorough=None, parts=1):
    """(gen, ev) for a 'threads' sub-check: all unordered pairs of the named calls (quick: of the `quick` subset) with at
    most 1 preemption (2 in the thorough tier), plus one three-thread case"""
    def gen(tier, seed):
        names = sorted(calls) if tier == 'thorough' or not quick else list(quick)
        out = pairs(names, 2 if tier == 'thorough' else 1, same=same, triple=triple if tier == 'thorough' else None)
        if tier == 'thorough' and files_thorough:
            # scheduling points also inside the modules the calls descend into
            out = [dict(c, deep=True) for c in out]
        np_ = max(parts, 8) if tier == 'thorough' else parts
        if np_ > 1:
            # long calls / two preemptions: the schedule space of one pair is partitioned by the position of the first preemption
            out = [dict(c, part=[k, np_]) for c in out for k in range(np_)]
        return out

    def ev(case, rec):
        evaluate(case, rec, calls, list(files) + (list(files_thorough) if case.get('deep') and files_thorough else []), site)
    return gen, ev
