"""Process environments a caller may legitimately run the library in. A property that quantifies over inputs and histories
does so in EVERY such environment: a result must not depend on the process time zone, on the ambient decimal context, on
numpy's print options or on the working directory. Each environment is applied around one case and restored afterwards.

The environment is part of the case (key '_env'), so replay files reproduce it.
POSIX TZ rule strings are used: they need no time-zone database.
"""
import contextlib
import decimal
import os
import time

NAMES = ['tz_sydney', 'dec_prec5_down', 'tz_london', 'np_print2', 'tz_pacific', 'dec_prec3_ceiling', 'cwd_root', 'tz_chatham', 'logging_debug']
_TZ = {'tz_sydney': 'AEST-10AEDT,M10.1.0,M4.1.0/3', 'tz_london': 'GMT0BST,M3.5.0/1,M10.5.0', 'tz_pacific': 'PST8PDT,M3.2.0,M11.1.0',
       'tz_chatham': '<+1245>-12:45<+1345>,M9.5.0/2:45,M4.1.0/3:45'}


@contextlib.contextmanager
def applied(name):
    if name is None:
        yield
        return
    if name.startswith('tz_'):
        old = os.environ.get('TZ')
        os.environ['TZ'] = _TZ[name]
        time.tzset()
        try:
            yield
        finally:
            if old is None:
                os.environ.pop('TZ', None)
            else:
                os.environ['TZ'] = old
            time.tzset()
    elif name.startswith('dec_'):
        old = decimal.getcontext()
        if name == 'dec_prec5_down':
            decimal.setcontext(decimal.Context(prec=5, rounding=decimal.ROUND_DOWN))
        else:
            decimal.setcontext(decimal.Context(prec=3, rounding=decimal.ROUND_CEILING))
        try:
            yield
        finally:
            decimal.setcontext(old)
    elif name == 'np_print2':
        import numpy as np
        old = np.get_printoptions()
        np.set_printoptions(precision=2, suppress=True, floatmode='fixed', threshold=4, linewidth=30)
        try:
            yield
        finally:
            np.set_printoptions(**old)
    elif name == 'cwd_root':
        old = os.getcwd()
        os.chdir('/')
        try:
            yield
        finally:
            os.chdir(old)
    elif name == 'logging_debug':
        # the application has switched on debug logging for everything (logging.basicConfig(level=logging.DEBUG)) and collects the
        # records: what a library logs, and whether it logs, is no input of its computations
        import io
        import logging
        root = logging.getLogger()
        old_level, old_disable = root.level, logging.root.manager.disable
        h = logging.StreamHandler(io.StringIO())
        h.setLevel(logging.DEBUG)
        root.addHandler(h)
        root.setLevel(logging.DEBUG)
        logging.disable(logging.NOTSET)
        named = [(lg, lg.level) for lg in logging.root.manager.loggerDict.values() if isinstance(lg, logging.Logger) and lg.name.startswith(('geodepy', 'api'))]
        for lg, _ in named:
            lg.setLevel(logging.NOTSET)
        try:
            yield
        finally:
            for lg, lv in named:
                lg.setLevel(lv)
            root.removeHandler(h)
            root.setLevel(old_level)
            logging.disable(old_disable)
    else:
        raise ValueError(name)


def expand(cases, every=1):
    """each case in the default environment, and every `every`-th case once more in one alternative environment (round-robin),
    so that over the lattice every environment meets every region of it"""
    k = 0
    for i, case in enumerate(cases):
        yield case
        if i % every == 0 and isinstance(case, dict):
            yield dict(case, _env=NAMES[k % len(NAMES)])
            k += 1
