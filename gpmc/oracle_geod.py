"""Exact geodesic on an ellipsoid of revolution by the auxiliary-sphere integrals (Bessel), not by
Vincenty's series:

    sin a0 = sin a1 cos b1                      (Clairaut; b = reduced latitude)
    s      = b  int_{s1}^{s2} sqrt(1 + k^2 sin^2 t) dt,            k^2 = e'^2 cos^2 a0
    lam12  = (w2 - w1) - f sin a0 int_{s1}^{s2} (2 - f) / (1 + (1 - f) sqrt(1 + k^2 sin^2 t)) dt
    w(t)   = t + atan2((sin a0 - 1) sin t cos t, cos^2 t + sin a0 sin^2 t)     (unwrapped, sin a0 >= 0)

sigma2 is obtained by Newton on the distance integral; the integrals by Gauss-Legendre quadrature.
West-going lines use the mirror symmetry.  Pole starts are the limit of the same formulas (azimuth a1 at the
north pole follows the meridian lon1 + 180 - a1, at the south pole lon1 + a1).

direct_np : float64, vectorised over (azimuth, distance) arrays;   direct_mp : mpmath scalar (34 digits).
"""
import math

import numpy as np

try:
    import mpmath as mp
except ImportError:  # pragma: no cover
    mp = None

_GL = {}


def _gl(n):
    if n not in _GL:
        x, w = np.polynomial.legendre.leggauss(n)
        _GL[n] = (0.5 * (x + 1.0), 0.5 * w)
    return _GL[n]


def direct_np(lat1, lon1, az1, s, a, invf, n=32):
    """lat1, lon1 scalars (deg); az1, s arrays (deg, m).  Returns lat2, lon2 (deg, unnormalised), az2 (forward
    azimuth at P2, deg), sig12."""
    with np.errstate(all='ignore'):
        f = 1.0 / invf
        b = a * (1.0 - f)
        ep2 = (a * a - b * b) / (b * b)
        az1 = np.asarray(az1, dtype=float)
        s = np.asarray(s, dtype=float)
        az1, s = np.broadcast_arrays(az1, s)
        azr = np.radians(az1)
        sa1, ca1 = np.sin(azr), np.cos(azr)
        sgn = np.where(sa1 < 0, -1.0, 1.0)
        sa1 = np.abs(sa1)
        phi1 = math.radians(lat1)
        if abs(lat1) == 90.0:
            sb1, cb1 = math.copysign(1.0, lat1), 0.0
        else:
            b1 = math.atan((1.0 - f) * math.tan(phi1))
            sb1, cb1 = math.sin(b1), math.cos(b1)
        sa0 = sa1 * cb1
        ca0 = np.hypot(ca1, sa1 * sb1)
        k2 = ep2 * ca0 * ca0
        # sigma1 through its sine and cosine (never through the angle: near the poles cos(sigma1) ~ 1e-9 would
        # lose 8 digits); sigma12 is the unknown
        nrm = np.hypot(sb1 + 0.0 * ca1, ca1 * cb1)
        nrm = np.where(nrm == 0.0, 1.0, nrm)
        s1, c1 = (sb1 + 0.0 * ca1) / nrm, np.where(nrm == 0.0, 1.0, ca1 * cb1 / nrm)
        if cb1 == 0.0:
            s1, c1 = np.full(az1.shape, math.copysign(1.0, lat1)), np.zeros(az1.shape)
        s1 = np.where((sb1 == 0.0) & (ca1 * cb1 == 0.0), 0.0, s1)
        c1 = np.where((sb1 == 0.0) & (ca1 * cb1 == 0.0), 1.0, c1)
        u, w = _gl(n)

        def sin_at(t):          # sin(sigma1 + t)
            return s1[..., None] * np.cos(t) + c1[..., None] * np.sin(t)

        def dist_int(d12):
            t = d12[..., None] * u
            return d12 * np.sum(np.sqrt(1.0 + k2[..., None] * sin_at(t) ** 2) * w, axis=-1)
        target = s / b
        d12 = target / np.sqrt(1.0 + 0.5 * k2)
        for _ in range(6):
            g = dist_int(d12) - target
            ss2 = s1 * np.cos(d12) + c1 * np.sin(d12)
            d12 = d12 - g / np.sqrt(1.0 + k2 * ss2 ** 2)
        t = d12[..., None] * u
        lam_int = d12 * np.sum((2.0 - f) / (1.0 + (1.0 - f) * np.sqrt(1.0 + k2[..., None] * sin_at(t) ** 2)) * w, axis=-1)
        s2 = s1 * np.cos(d12) + c1 * np.sin(d12)
        c2 = c1 * np.cos(d12) - s1 * np.sin(d12)

        def E(ss, cs):          # omega(sigma) - sigma, smooth and small
            return np.arctan2((sa0 - 1.0) * ss * cs, cs * cs + sa0 * ss * ss)
        if cb1 == 0.0:
            # pole start (limit of the formulas): the line follows the meridian lon1 + 180 - a1 (north pole)
            # or lon1 + a1 (south pole); sin a0 = 0, so there is no longitude correction term
            w1 = np.arctan2(sa1, ca1)
            ncross = np.floor(d12 / math.pi)       # passages over the opposite / original pole
            lam12 = np.where(s > 0, ((math.pi - w1) if lat1 > 0 else w1) + ncross * math.pi, 0.0)
        else:
            lam12 = d12 + (E(s2, c2) - E(s1, c1)) - f * sa0 * lam_int
        sb2 = ca0 * s2
        cb2 = np.hypot(sa0, ca0 * c2)
        lat2 = np.degrees(np.arctan2(sb2, (1.0 - f) * cb2))
        az2 = np.degrees(np.arctan2(sa0, ca0 * c2))
        if cb1 == 0.0:
            # leaving the north pole the line heads south (forward azimuth 180), leaving the south pole north
            head = (180.0 if lat1 > 0 else 0.0) + 180.0 * np.floor(d12 / math.pi)
            az2 = np.where(s > 0, head % 360.0, np.degrees(np.arctan2(sa1, ca1)))
        lon2 = lon1 + sgn * np.degrees(lam12)
        az2 = sgn * az2
        return lat2, lon2, az2, d12


def direct_mp(lat1, lon1, az1, s, a, invf, dps=34, n=64):
    """scalar mpmath evaluation of the same definition (pole starts: explicit limit, as in direct_np)"""
    from gpmc.oracle_tm import _gl_mp
    old = mp.mp.dps
    mp.mp.dps = dps
    try:
        a, f = mp.mpf(a), 1 / mp.mpf(invf)
        b = a * (1 - f)
        ep2 = (a * a - b * b) / (b * b)
        azr = mp.radians(mp.mpf(az1))
        sa1, ca1 = mp.sin(azr), mp.cos(azr)
        sgn = -1 if sa1 < 0 else 1
        sa1 = abs(sa1)
        pole = abs(lat1) == 90
        if pole:
            cb1 = mp.mpf(0)
            sb1 = mp.mpf(1 if lat1 > 0 else -1)
        else:
            b1 = mp.atan((1 - f) * mp.tan(mp.radians(mp.mpf(lat1))))
            sb1, cb1 = mp.sin(b1), mp.cos(b1)
        sa0 = sa1 * cb1
        ca0 = mp.hypot(ca1, sa1 * sb1)
        k2 = ep2 * ca0 * ca0
        sig1 = mp.atan2(sb1, ca1 * cb1) if not pole else sb1 * mp.pi / 2
        xs, ws = _gl_mp(n)
        target = mp.mpf(s) / b

        def dist_int(sg2):
            d = sg2 - sig1
            return d * sum(w * mp.sqrt(1 + k2 * mp.sin(sig1 + d * u) ** 2) for u, w in zip(xs, ws))
        sig2 = sig1 + target / mp.sqrt(1 + k2 / 2)
        for _ in range(12):
            g = dist_int(sig2) - target
            step = g / mp.sqrt(1 + k2 * mp.sin(sig2) ** 2)
            sig2 -= step
            if abs(step) < mp.mpf(10) ** -(dps - 4):
                break
        d = sig2 - sig1
        lam_int = d * sum(w * (2 - f) / (1 + (1 - f) * mp.sqrt(1 + k2 * mp.sin(sig1 + d * u) ** 2)) for u, w in zip(xs, ws))

        def omega(sg):
            ss, cs = mp.sin(sg), mp.cos(sg)
            return sg + mp.atan2((sa0 - 1) * ss * cs, cs * cs + sa0 * ss * ss)
        if pole:
            # limit of the formulas at a pole start (see module docstring); validated by continuity in selfcheck()
            w1 = mp.atan2(sa1, ca1)
            ncross = mp.floor(d / mp.pi)
            lam12 = (((mp.pi - w1) if lat1 > 0 else w1) + ncross * mp.pi) if s > 0 else mp.mpf(0)
        else:
            lam12 = (omega(sig2) - omega(sig1)) - f * sa0 * lam_int
        sb2 = ca0 * mp.sin(sig2)
        cb2 = mp.hypot(sa0, ca0 * mp.cos(sig2))
        lat2 = mp.degrees(mp.atan2(sb2, (1 - f) * cb2))
        az2 = mp.degrees(mp.atan2(sa0, ca0 * mp.cos(sig2)))
        if pole:
            az2 = ((mp.mpf(180) if lat1 > 0 else mp.mpf(0)) + 180 * mp.floor(d / mp.pi)) % 360 if s > 0 \
                else mp.degrees(mp.atan2(sa1, ca1))
        lon2 = mp.mpf(lon1) + sgn * mp.degrees(lam12)
        return lat2, lon2, sgn * az2, d
    finally:
        mp.mp.dps = old


def xyz_np(lat, lon, a, invf):
    f = 1.0 / invf
    e2 = f * (2.0 - f)
    ph, lm = np.radians(lat), np.radians(lon)
    nu = a / np.sqrt(1.0 - e2 * np.sin(ph) ** 2)
    return np.stack([nu * np.cos(ph) * np.cos(lm), nu * np.cos(ph) * np.sin(lm), nu * (1.0 - e2) * np.sin(ph)], axis=-1)


def chord_np(lat_a, lon_a, lat_b, lon_b, a, invf):
    """3-D chord between points on the ellipsoid (metres); equals the surface distance to 1e-9 relative
    for millimetre-level separations"""
    return np.linalg.norm(xyz_np(np.asarray(lat_a, float), np.asarray(lon_a, float), a, invf) -
                          xyz_np(np.asarray(lat_b, float), np.asarray(lon_b, float), a, invf), axis=-1)


def pole_dist_m(lat, a):
    """approximate distance (m) of a point from the nearer pole (used only to convert mm into an angle)"""
    return np.radians(90.0 - np.abs(lat)) * a


def reduced_length_np(lat1, lon1, az1, s, a, invf):
    """m12 by differencing the oracle: displacement of the end point per radian of start azimuth"""
    d = 1e-5
    la, lo, _, _ = direct_np(lat1, lon1, np.asarray(az1, float) + math.degrees(d), s, a, invf)
    lb, lob, _, _ = direct_np(lat1, lon1, np.asarray(az1, float) - math.degrees(d), s, a, invf)
    return chord_np(la, lo, lb, lob, a, invf) / (2 * d)


def selfcheck():
    out = {}
    worst_pos = worst_az = 0.0
    worst_rt = 0.0
    cases = []
    for (a, invf) in ((6378137.0, 298.257222101), (6.3e6, 280.0), (6.4e6, 320.0)):
        for lat1 in (-89.0, -33.0, 0.0, 1e-9, 45.0, 89.9999999, 90.0, -90.0):
            for az in (0.0, 1e-9, 37.0, 90.0, 180.0, 225.0, 359.999999):
                for s in (0.0, 1e-3, 1e3, 1e6, 1.5e7, 2e7):
                    cases.append((a, invf, lat1, az, s))
    for (a, invf, lat1, az, s) in cases:
        l2, lo2, a2, _ = direct_np(lat1, 10.0, np.array([az]), np.array([s]), a, invf)
        m = direct_mp(lat1, 10.0, az, s, a, invf)
        d = float(chord_np(l2[0], lo2[0], float(m[0]), float(m[1]), a, invf))
        worst_pos = max(worst_pos, d)
        if abs(float(m[0])) < 89.0 and abs(lat1) < 90.0:
            da = abs((a2[0] - float(m[2]) + 180.0) % 360.0 - 180.0)
            worst_az = max(worst_az, da)
        # the oracle's own round trip: go back from P2 along the reverse azimuth
        if abs(l2[0]) < 89.9 and abs(lat1) < 90.0 and s > 0:
            lb, lob, _, _ = direct_np(float(l2[0]), float(lo2[0]), np.array([a2[0] + 180.0]), np.array([s]), a, invf)
            worst_rt = max(worst_rt, float(chord_np(lb[0], lob[0], lat1, 10.0, a, invf)))
    # pole starts are defined as a limit: continuity with a start 1e-7 deg (1.1 cm) from the pole
    worst_pole = 0.0
    for sgn in (1.0, -1.0):
        for az in (0.0, 37.0, 90.0, 180.0, 225.0, 300.0):
            for s in (1e3, 1e6, 1.5e7, 2e7):
                p = direct_np(sgn * 90.0, 10.0, np.array([az]), np.array([s]), 6.3e6, 280.0)
                q = direct_np(sgn * (90.0 - 1e-7), 10.0, np.array([az]), np.array([s]), 6.3e6, 280.0)
                worst_pole = max(worst_pole, float(chord_np(p[0][0], p[1][0], q[0][0], q[1][0], 6.3e6, 280.0)))
    out['pole_limit_continuity_m'] = worst_pole
    out['np_vs_mp_position_m'] = worst_pos
    out['np_vs_mp_azimuth_deg'] = worst_az
    out['roundtrip_m'] = worst_rt
    out['cases'] = len(cases)
    out['ok'] = bool(worst_pos < 1e-7 and worst_az < 1e-11 and worst_rt < 1e-6 and worst_pole < 0.03)
    return out


if __name__ == '__main__':
    import json
    print(json.dumps(selfcheck(), indent=1))
