"""C14 — grid-based geodesic computations agree with ellipsoid and projection.

Space: hemispheres x zones {1,2,30,31,55,59,60} x E1 x N1 (latitudes -80..84) x 8 (16) grid bearings x lengths
{1 m, 100 m, 10 km, 100 km}; second point in the same zone or handed over in the adjacent zone (re-projected by the
oracle); lines crossing the central meridian.  Depth 2: vincinv_utm, then vincdir_utm with the inverse's output.
Oracle: exact TM (oracle_tm) for positions, point scale factor and convergence; exact geodesic (oracle_geod): the
inverse problem is solved by Newton iteration on the exact DIRECT geodesic.
"""
import math

import numpy as np

from geodepy.geodesy import vincinv_utm, vincdir_utm, line_sf
from gpmc import cfg
from gpmc import oracle_tm, oracle_geod as og
from gpmc.core import Sub, HarnessError

PROPERTY = 'C14'
A_, F_ = 6378137.0, 298.257222101
K0, FE, FN = 0.9996, 500000.0, 10000000.0
ASSUMPTIONS = [
    'exact inverse geodesic = Newton iteration on the exact direct geodesic (closes to < 1e-8 m)',
    'grid-bearing tolerance 2e-8 deg + the angle 5 um subtends over the line (grid2geo returns positions rounded to 1e-11 deg)',
    'grid distance tolerance 1 mm (vincinv returns millimetres)',
    'min/max point scale factor along the straight grid line from 65 oracle evaluations incl. both ends (error < 1e-8)',
]
_SC = {}


def prepare(tier, seed):
    a, b = oracle_tm.selfcheck(), og.selfcheck()
    _SC.update({'tm': a, 'geod': b})
    if not (a['ok'] and b['ok']):
        raise HarnessError('oracle self-check failed: %r' % _SC)


def evidence_extra():
    return {'oracle_selfcheck': dict(_SC)}


def use_ell(name):
    """the oracle helpers of this module work on one ellipsoid at a time (module-level A_, F_): set it for the case at hand"""
    global A_, F_
    A_, F_ = cfg.ELL_AF[name]
    return cfg.ell_obj(name)


def cm(zone):
    return -177.0 + (zone - 1) * 6.0


def to_geo(zone, e, n, south):
    la, dl, k, g = oracle_tm.inverse_np(np.atleast_1d(np.asarray(n, float) - (FN if south else 0.0)), np.atleast_1d(np.asarray(e, float) - FE),
                                        A_, F_, K0)
    return la, cm(zone) + dl, k, g


def to_grid(lat, lon, zone, south):
    dl = np.atleast_1d(np.asarray(lon, float)) - cm(zone)
    dl = np.where(np.abs(dl) > 180.0, (dl + 180.0) % 360.0 - 180.0, dl)      # zones 60 and 1 are neighbours across the 180-degree meridian
    n_, e_, k, g = oracle_tm.forward_np(np.atleast_1d(lat), dl, A_, F_, K0)
    return FE + e_, n_ + (FN if south else 0.0), k, g


def inverse_exact(lat1, lon1, lat2, lon2):
    """exact inverse by Newton on the exact direct problem; returns s, az1, az2 (forward azimuth at P2)"""
    ph1, ph2 = math.radians(lat1), math.radians(lat2)
    dl = math.radians(lon2 - lon1)
    # start: spherical
    y = math.sin(dl) * math.cos(ph2)
    x = math.cos(ph1) * math.sin(ph2) - math.sin(ph1) * math.cos(ph2) * math.cos(dl)
    az = math.degrees(math.atan2(y, x))
    h = math.sin((ph2 - ph1) / 2) ** 2 + math.cos(ph1) * math.cos(ph2) * math.sin(dl / 2) ** 2
    s = 2 * 6371000.0 * math.asin(min(1.0, math.sqrt(h)))
    az2 = az
    for _ in range(12):
        la, lo, a2, _ = og.direct_np(lat1, lon1, np.array([az]), np.array([s]), A_, F_)
        la, lo, az2 = float(la[0]), float(lo[0]), float(a2[0])
        # miss vector at P2 in local north/east metres
        f = 1 / F_
        e2 = f * (2 - f)
        sp = math.sin(math.radians(lat2))
        rho = A_ * (1 - e2) / (1 - e2 * sp * sp) ** 1.5
        nu = A_ / math.sqrt(1 - e2 * sp * sp)
        dn = math.radians(lat2 - la) * rho
        de = math.radians(((lon2 - lo + 180.0) % 360.0) - 180.0) * nu * math.cos(math.radians(lat2))
        t = math.radians(az2)
        along = dn * math.cos(t) + de * math.sin(t)
        across = -dn * math.sin(t) + de * math.cos(t)
        if math.hypot(dn, de) < 1e-9:
            break
        s += along
        if s > 1e-6:
            az += math.degrees(across / max(s, 1e-3))
    return s, az % 360.0, az2 % 360.0


LENGTHS = [1.0, 100.0, 1e4, 1e5]
E1S = [1e5, 3e5, 460000.0, 499999.0, 5e5, 545000.0, 7e5, 9e5]      # 460000 / 545000: 100 km lines cross the CM with both ends far from it


def gen(tier, seed):
    zones = [1, 2, 30, 31, 55, 59, 60]
    nb = 8 if tier == 'quick' else 16
    ph = ((seed * 0.6180339887) % 1.0) * (360.0 / nb)
    brgs = [ph + i * 360.0 / nb for i in range(nb)] + [0.0, 90.0]
    lats_s = [-79.0, -60.0, -33.0, -1.0] if tier == 'quick' else [-79.0, -70.0, -60.0, -45.0, -33.0, -15.0, -1.0, -0.3]
    lats_n = [1.0, 33.0, 60.0, 83.0] if tier == 'quick' else [0.3, 1.0, 15.0, 33.0, 45.0, 60.0, 72.0, 83.0]
    for south, lats in ((True, lats_s), (False, lats_n)):
        for z in zones:
            for lat in lats:
                # N1 from the latitude on the central meridian (oracle)
                e_, n_, _, _ = to_grid(lat, cm(z), z, south)
                n1 = round(float(n_[0]), 4)
                for e1 in E1S:
                    yield {'south': south, 'zone': z, 'e1': e1, 'n1': n1, 'brgs': [round(b % 360.0, 6) for b in brgs], 'lengths': LENGTHS}


def gen_ell(tier, seed):
    """the same space on other ellipsoids (the functions take the ellipsoid as an argument; every step of the computation,
    including the re-projection of a second point given in the adjacent zone, must use it)"""
    ells = ['intl24', 'ans', 'e63_150'] if tier == 'quick' else ['intl24', 'ans', 'wgs84', 'e63_150', 'g64_320']
    brgs = [20.0, 110.0, 200.0, 290.0] if tier == 'quick' else [20.0, 65.0, 110.0, 155.0, 200.0, 245.0, 290.0, 335.0]
    for ell in ells:
        if ell not in cfg.ELL_AF:
            continue
        use_ell(ell)
        for south, lats in ((True, [-70.0, -33.0, -2.0]), (False, [2.0, 45.0, 80.0])):
            for z in (2, 55):
                for lat in lats:
                    e_, n_, _, _ = to_grid(lat, cm(z), z, south)
                    n1 = round(float(n_[0]), 4)
                    for e1 in (1e5, 2.2e5, 5e5, 7.8e5, 9e5):
                        yield {'ell': ell, 'south': south, 'zone': z, 'e1': e1, 'n1': n1, 'brgs': brgs, 'lengths': [100.0, 3e4, 1e5]}
    use_ell('grs80')


def gen_special(tier, seed):
    """zones next to the 180-degree meridian with lines towards / across it, and the areas of the UTM system's irregular zones
    (32V, 31X-37X: this library uses the regular 6-degree zones there; an explicitly given zone must be honoured)"""
    use_ell('grs80')
    brgs = [0.0, 45.0, 90.0, 135.0, 180.0, 225.0, 270.0, 315.0]
    for south, lats in ((True, [-17.0, -44.0]), (False, [16.0, 65.0])):
        for z, e1s in ((60, [7.0e5, 8.3e5]), (1, [1.7e5, 3.0e5])):
            for lat in lats:
                e_, n_, _, _ = to_grid(lat, cm(z), z, south)
                for e1 in e1s:
                    yield {'south': south, 'zone': z, 'e1': e1, 'n1': round(float(n_[0]), 4), 'brgs': brgs, 'lengths': [30.0, 1e4, 1e5]}
    for z in (31, 32, 33, 34, 35, 36, 37):
        for lat in ((60.0, 78.0) if z <= 33 else (78.0,)):
            e_, n_, _, _ = to_grid(lat, cm(z), z, False)
            for e1 in (3.5e5, 5.0e5, 6.5e5):
                yield {'south': False, 'zone': z, 'e1': e1, 'n1': round(float(n_[0]), 4), 'brgs': brgs[::2] + [60.0], 'lengths': [1e4, 1e5]}


def gen_lengths(tier, seed):
    """a sweep of line lengths between the decades (a shortcut 'for lines under 25 km' or 'under 40 km' opens a window there), at the
    zone edges and at the centre, along and across the central meridian"""
    use_ell('grs80')
    lens = [2.0e3, 5.0e3, 1.5e4, 2.0e4, 2.2e4, 2.4e4, 2.6e4, 3.0e4, 3.4e4, 3.7e4, 3.95e4, 4.2e4, 5.0e4, 7.0e4]
    brgs = [0.0, 30.0, 60.0, 90.0, 120.0, 150.0, 180.0, 225.0, 270.0, 315.0]
    for south, lat in ((True, -36.0), (False, 52.0), (True, -8.0)):
        for z in (55, 31):
            e_, n_, _, _ = to_grid(lat, cm(z), z, south)
            for e1 in (1.5e5, 2.4e5, 5.0e5, 7.6e5, 8.5e5):
                for part in (brgs[:3], brgs[3:6], brgs[6:]):
                    yield {'south': south, 'zone': z, 'e1': e1, 'n1': round(float(n_[0]), 4), 'brgs': part, 'lengths': lens}


def gen_equator(tier, seed):
    """lines whose SECOND point lies a few metres inside the hemisphere, next to the equator (northing just under the false
    northing / just above 0), the first point far from the central meridian: any intermediate estimate of the second point that
    overshoots lands in the other hemisphere's northing range"""
    use_ell('grs80')
    for south in (True, False):
        for z in (31, 55):
            for e1 in (1.7e5, 3.2e5, 5.0e5, 6.9e5, 8.3e5):
                for L in (1.0e4, 1.0e5):
                    for b in (0.0, 25.0, 335.0, 60.0, 300.0):
                        bb = b if south else (b + 180.0) % 360.0
                        for d in (2.0, 12.0, 60.0, 120.0):
                            n2 = (FN - d) if south else d
                            n1 = round(n2 - L * math.cos(math.radians(bb)), 4)
                            yield {'south': south, 'zone': z, 'e1': e1, 'n1': n1, 'brgs': [bb], 'lengths': [L]}


def gen_both(tier, seed):
    # identical (zone, easting, northing) interpreted in the southern and then the northern hemisphere (and the reverse)
    # inside one process
    for z in (2, 31, 55):
        for e1 in (1e5, 3e5, 9e5):
            for n1 in (2.0e6, 3.3e6, 7.2e6, 8.0e6):
                for order in ('SN', 'NS'):
                    yield {'both': order, 'zone': z, 'e1': e1, 'n1': n1, 'brgs': [30.0, 135.0, 250.0], 'lengths': [1e4, 1e5]}


def ev_both(case, rec):
    for h in case['both']:
        ev(dict(case, south=(h == 'S')), rec)


def angdiff(a, b):
    return abs((a - b + 180.0) % 360.0 - 180.0)


def ev(case, rec):
    ell = case.get('ell', 'grs80')
    EOBJ = use_ell(ell)
    try:
        ev1(case, rec, ell, EOBJ)
    finally:
        use_ell('grs80')


def ev1(case, rec, ell, EOBJ):
    south, z1, e1, n1 = case['south'], case['zone'], case['e1'], case['n1']
    hemi = 'south' if south else 'north'
    la1, lo1, k1, g1 = to_geo(z1, e1, n1, south)
    la1, lo1, g1 = float(la1[0]), float(lo1[0]), float(g1[0])
    if not (-80.0 < la1 < 84.0) or not (-180.0 <= lo1 <= 180.0):
        rec.skip('point 1 outside the band / longitude range')
        return
    for L in case['lengths']:
        for b in case['brgs']:
            e2 = round(e1 + L * math.sin(math.radians(b)), 4)
            n2 = round(n1 + L * math.cos(math.radians(b)), 4)
            if not (0.0 <= n2 <= 1e7):
                rec.skip('point 2 northing outside 0..1e7')
                continue
            la2, lo2, k2, g2 = to_geo(z1, e2, n2, south)
            la2, lo2 = float(la2[0]), float(lo2[0])
            if not (-80.0 < la2 < 84.0) or (south and la2 > 0) or (not south and la2 < 0):
                rec.skip('point 2 outside the band / hemisphere')
                continue
            variants = [('same', z1, e2, n2)] if -180.0 <= lo2 <= 180.0 else []
            # the same second point handed over in the adjacent zone (re-projected by the oracle); zones 60 and 1 are
            # neighbours: a point of zone 60 lying beyond the 180-degree meridian has an in-range longitude in zone 1
            z2 = z1 + 1 if lo2 >= cm(z1) else z1 - 1
            z2 = 1 if z2 == 61 else 60 if z2 == 0 else z2
            p2_beyond = not (-180.0 <= lo2 <= 180.0)      # in zone-1 coordinates point 2 lies beyond the 180-degree meridian
            lo2 = ((lo2 + 180.0) % 360.0) - 180.0 if p2_beyond else lo2
            if 1 <= z2 <= 60:
                ee, nn, _, _ = to_grid(la2, lo2, z2, south)
                variants.append(('adjacent', z2, round(float(ee[0]), 4), round(float(nn[0]), 4)))
            for vname, z2, ee2, nn2 in variants:
                one = {'ell': ell, 'south': south, 'zone': z1, 'e1': e1, 'n1': n1, 'brgs': [b], 'lengths': [L], 'variant': vname}
                if case.get('_env'):
                    one['_env'] = case['_env']
                co = {'ell': ell, 'zone1': z1, 'zone2': z2, 'len': L, 'brg': b, 'hemi': hemi, 'variant': vname, 'lat1': la1}
                # exact positions of the two points as given (each in its own zone)
                q2 = to_geo(z2, ee2, nn2, south)
                la2g, lo2g, g2g = float(q2[0][0]), float(q2[1][0]), float(q2[3][0])
                if not (-180.0 <= lo2g <= 180.0):
                    # the property excludes grid points whose longitude (reckoned from their own zone's central meridian) falls
                    # outside [-180, 180]: a zone-60 coordinate east of the 180-degree meridian, a zone-1 coordinate west of it
                    rec.skip('point 2 as given in zone %d has a longitude outside [-180, 180]' % z2)
                    continue
                st, r = rec.call(vincinv_utm, z1, e1, n1, z2, ee2, nn2, hemi, EOBJ)
                if st != 'ok':
                    rec.fail('vincinv_utm raised on valid grid points', site='geodesy:vincinv_utm', observed=r, case=one, coords=co)
                    continue
                gd, b12, b21, lsf = r
                rec.nontriv((ell, south, z1, e1, n1, b, L, vname))
                if L == 100.0:
                    for sp in (hemi.upper(), hemi.capitalize()):
                        stf, rf = rec.call(vincinv_utm, float(z1), e1, n1, z2, ee2, nn2, sp, EOBJ)
                        if stf != 'ok' or tuple(rf) != tuple(r):
                            rec.fail('hemisphere spelling %r / zone given as float changes the result' % sp, site='geodesy:vincinv_utm:input-form',
                                     observed=rf, expected=list(r), case=one, coords=co)
                rec.state(tuple(float(v).hex() for v in r))
                s_ex, a12, a2f = inverse_exact(la1, lo1, la2g, lo2g)
                bad = False
                dd = abs(gd - s_ex * lsf)
                rec.dev('griddist_m', dd, one)
                if not (dd <= 1e-3):
                    bad = True
                    rec.fail('grid distance is not the ellipsoidal geodesic distance times the returned line scale factor',
                             site='geodesy:vincinv_utm:distance', observed=gd, expected=s_ex * lsf, tol=1e-3, case=one, coords=co)
                tol_b = 2e-8 + math.degrees(5e-6 / max(s_ex, 1e-3))
                d1 = angdiff(b12, a12 + g1)
                d2 = angdiff(b21, (a2f + 180.0) + g2g)
                rec.dev('bearing_over_tol', max(d1, d2) / tol_b, one)
                if not (d1 <= tol_b and d2 <= tol_b):
                    bad = True
                    rec.fail('grid bearings are not the geodetic azimuths plus the grid convergence at each end (own zone)',
                             site='geodesy:vincinv_utm:bearing', observed=[b12, b21], expected=[(a12 + g1) % 360, (a2f + 180 + g2g) % 360],
                             tol=tol_b, case=one, coords=co)
                # line scale factor against the exact point scale factor along the straight grid line in zone 1
                t = np.linspace(0.0, 1.0, 65)
                if vname == 'same':
                    ex, nx = e1 + (ee2 - e1) * t, n1 + (nn2 - n1) * t
                else:
                    e2z1, n2z1, _, _ = to_grid(la2g, lo2g, z1, south)
                    ex, nx = e1 + (float(e2z1[0]) - e1) * t, n1 + (float(n2z1[0]) - n1) * t
                _, _, kk, _ = to_geo(z1, ex, nx, south)
                kmin, kmax = float(kk.min()), float(kk.max())
                simpson = (float(kk[0]) + 4 * float(kk[32]) + float(kk[64])) / 6.0
                rec.dev('lsf_outside_range', max(kmin - lsf, lsf - kmax, 0.0), one)
                rec.dev('lsf_vs_simpson', abs(lsf - simpson), one)
                if not (kmin - 3e-7 <= lsf <= kmax + 3e-7):
                    bad = True
                    rec.fail('line scale factor is outside [min, max] of the point scale factor along the line (3e-7)',
                             site='geodesy:line_sf:range', observed=lsf, expected=[kmin, kmax], tol=3e-7, case=one, coords=co)
                if not (abs(lsf - simpson) <= 5e-7):
                    bad = True
                    rec.fail('line scale factor differs from the Simpson mean of the point scale factors by more than 5e-7',
                             site='geodesy:line_sf:simpson', observed=lsf, expected=simpson, tol=5e-7, case=one, coords=co)
                st, ls = rec.call(line_sf, z1, e1, n1, z2, ee2, nn2, hemi, EOBJ)
                if st != 'ok' or abs(ls - lsf) > 1e-12:
                    bad = True
                    rec.fail('line_sf disagrees with the line scale factor reported by vincinv_utm', site='geodesy:line_sf:consistency',
                             observed=ls, expected=lsf, case=one, coords=co)
                # depth 2: the direct computation with the inverse's output reproduces point 2 in zone 1
                if p2_beyond:
                    # ... unless point 2, expressed in the first point's zone, is one of the excluded grid points (longitude
                    # reckoned from that zone's central meridian outside [-180, 180])
                    rec.skip('point 2 in the first point\'s zone lies beyond the 180-degree meridian')
                    rec.outcome(('bad-' if bad else 'ok-') + vname + '-inverse-only')
                    continue
                st, d = rec.call(vincdir_utm, z1, e1, n1, b12, gd, hemi, EOBJ)
                if st != 'ok':
                    bad = True
                    rec.fail('vincdir_utm raised on the output of vincinv_utm', site='geodesy:vincdir_utm', observed=d, case=one, coords=co)
                else:
                    e2z1, n2z1, _, _ = to_grid(la2g, lo2g, z1, south)
                    miss = math.hypot(d[1] - float(e2z1[0]), d[2] - float(n2z1[0]))
                    rec.dev('direct_miss_m', miss, one)
                    if d[0] != z1 or not (miss <= 1e-3):
                        bad = True
                        rec.fail('grid direct computation does not reproduce the second point within 1 mm in the first point\'s zone',
                                 site='geodesy:vincdir_utm:position', observed=list(d[:3]), expected=[z1, float(e2z1[0]), float(n2z1[0])],
                                 tol=1e-3, case=one, coords=dict(co, miss=miss))
                    # grid bearing 2->1 reported by the direct computation, relative to zone 1
                    _, _, _, g2z1 = to_geo(z1, float(e2z1[0]), float(n2z1[0]), south)
                    db = angdiff(d[3], a2f + 180.0 + float(g2z1[0]))
                    if not (db <= tol_b + 1e-7):
                        bad = True
                        rec.fail('reverse grid bearing from vincdir_utm is not azimuth + convergence at point 2 (zone 1)',
                                 site='geodesy:vincdir_utm:bearing', observed=d[3], expected=(a2f + 180.0 + float(g2z1[0])) % 360,
                                 tol=tol_b + 1e-7, case=one, coords=co)
                rec.outcome(('bad-' if bad else 'ok-') + vname)
    rec.sample({'case': dict(case, brgs=case['brgs'][:2])})


# --- two threads computing DIFFERENT grid lines (zones, hemispheres, ellipsoids) at the same time ----------
from gpmc import threads as _thr
import numpy as _tnp
import geodepy.constants as _tgc
import geodepy.convert as _tgv
import geodepy.geodesy as _tgg
import geodepy.angles as _tga
T_CALLS = {
    'inv_55_54': lambda: (lambda: _tgg.vincinv_utm(55, 273741.2966, 5796489.7769, 54, 758173.7973, 5828674.3402)),
    'inv_north_intl': lambda: (lambda: _tgg.vincinv_utm(31, 500000.0, 5000000.0, 31, 560000.0, 5060000.0, 'north', _tgc.intl24)),
    'dir_55': lambda: (lambda: _tgg.vincdir_utm(55, 273741.2966, 5796489.7769, 305.17017, 54992.279)),
    'dir_north_ans': lambda: (lambda: _tgg.vincdir_utm(2, 700000.0, 3000000.0, 120.0, 80000.0, 'north', _tgc.ans)),
    'lsf_cross': lambda: (lambda: _tgg.line_sf(55, 273741.2966, 5796489.7769, 54, 758173.7973, 5828674.3402, 'south', _tgc.intl24)),
}
_tg, _te = _thr.make(T_CALLS, ['geodepy/geodesy.py'], 'geodesy:utm:threads', quick=['inv_55_54', 'inv_north_intl', 'dir_north_ans', 'lsf_cross'],
                     parts=4)
# (no three-thread case and no line-level tracing of geodepy/convert.py underneath: one grid-geodesic call already has thousands of
# scheduling points in geodesy.py alone - with convert.py traced too a single case ran for more than 40 minutes and the thorough tier
# for 3 hours; convert.py under two threads is explored by the thread sub-checks of C01, C02, C10 and C13)


from gpmc import callforms as _cf


from gpmc import interp as _ip


from gpmc import manyobj as _mo
SUBCHECKS = [Sub('grid_geodesic', gen, ev, chunk=1, floor=500, guard=True, envs=8), Sub('ellipsoids', gen_ell, ev, chunk=1, floor=300, guard=True), Sub('special_zones', gen_special, ev, chunk=1, floor=100, guard=True), Sub('lengths', gen_lengths, ev, chunk=1, floor=300, guard=True), Sub('near_equator', gen_equator, ev, chunk=8, floor=300, guard=True), Sub('both_hemispheres', gen_both, ev_both, chunk=1, floor=100, guard=True, envs=4), Sub('threads', _tg, _te, chunk=1, floor=3, poison=False, fresh=True, timeout=7200), Sub('many_objects', *_mo.make('C14', 'geodesy'), chunk=1, floor=3, poison=False, fresh=True, timeout=7200), Sub('callforms', *_cf.make('C14', 'geodesy'), chunk=1, floor=1, guard=True), Sub('interpreter', *_ip.make('C14', 'geodesy'), chunk=1, floor=5, poison=False)]


def bounds(tier, seed):
    return {'zones': [1, 2, 30, 31, 55, 59, 60], 'e1': E1S, 'lengths_m': LENGTHS, 'depth': 2,
            'tolerances': {'distance_m': 1e-3, 'direct_m': 1e-3, 'lsf_range': 3e-7, 'lsf_simpson': 5e-7}}
