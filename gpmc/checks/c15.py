"""C15 — coordinate objects convert consistently and carry heights unchanged.

Explicit-state search of the representation graph {CoordCart, CoordGeo x 6 notations, CoordTM} under the
transitions  .geo(ellipsoid, notation)  .tm(ellipsoid, projection)  .cart(ellipsoid)  .notation(type),
for the configurations (GRS80, UTM), (ANS, ISG), (ANS, UTM), from a lattice of positions x height combinations
(ellipsoidal / orthometric in {None, 0.0, -12.5, 603.2489}^2, N in {None, 0.0, 14.269}) injected in every
representation, breadth-first to depth 3 (quick) / 4 (thorough).  On every transition:
  * the result carries exactly the numbers of the functional API for the same ellipsoid / projection / notation,
  * geographic <-> projected keeps both heights (None stays None, 0.0 stays 0.0),
  * N = ellipsoidal - orthometric on every conversion to or from Cartesian when both are known,
  * .notation changes only the representation (denotation within 1e-8"),
and in every reached state the horizontal position (judged by the exact-TM / closed-form oracles) is within 0.3 mm
of the start — which contains every closed chain.
"""
import math
import warnings

import numpy as np

import geodepy.angles as ga
import geodepy.constants as gc
import geodepy.coord as gco
from geodepy.convert import geo2grid, grid2geo, llh2xyz, xyz2llh
from gpmc import cfg as xcfg
from gpmc import oracle_tm, oracle_misc as om, oracle_geod as og
from gpmc.checks import c08
from gpmc.core import Sub, HarnessError

warnings.simplefilter('ignore', UserWarning)
PROPERTY = 'C15'
ASSUMPTIONS = [
    'a state reached by any chain must denote the start position (0.3 mm): this contains every closed chain',
    'positions of states are judged by independent oracles (exact TM with the projection the object carries; closed forms)',
    'when no ellipsoidal height is known the Cartesian form uses 0 m, as documented; after that the height is a known 0',
]
NOTATIONS = {'float': float, 'deca': ga.DECAngle, 'hpa': ga.HPAngle, 'gona': ga.GONAngle, 'dms': ga.DMSAngle, 'ddm': ga.DDMAngle}
CONFIGS = {'grs80-utm': ('grs80', 'utm'), 'ans-isg': ('ans', 'isg'), 'ans-utm': ('ans', 'utm')}
ELL = {'grs80': gc.grs80, 'ans': gc.ans}
PRJ = {'utm': gc.utm, 'isg': gc.isg}
AF = {'grs80': (6378137.0, 298.257222101), 'ans': (6378160.0, 298.25)}
HEIGHTS = [None, 0.0, -12.5, 603.2489]
NVALS = [None, 0.0, 14.269]
POS_ANY = [(-0.5, -0.25), (0.4, -0.7), (-33.5, 151.2), (-23.67, 133.88), (-31.999999, 141.000001), (45.5, -73.6), (-79.9, 179.9), (83.9, -179.5), (0.25, 3.0),
           (60.0, 5.0), (63.5, 10.5), (78.0, 9.0), (75.0, 21.0), (80.0, 33.0)]      # areas of the UTM system's irregular zones (32V, 31X-37X)
POS_ISG = [(-33.5, 151.2), (-31.999999, 141.000001), (-36.9, 149.9), (-28.2, 153.55)]


def kind(o):
    if type(o) is float:
        return 'float'
    return c08.__dict__.get('kind_of', None) and None


def ang_kind(a):
    if type(a) is float:
        return 'float'
    return {ga.DECAngle: 'deca', ga.HPAngle: 'hpa', ga.GONAngle: 'gona', ga.DMSAngle: 'dms', ga.DDMAngle: 'ddm'}[type(a)]


def ang_key(a):
    k = ang_kind(a)
    if k == 'float':
        return ('float', float(a).hex())
    return c08.key((k, a))


def dec_of(a):
    """decimal degrees the angle denotes, read from its public fields (never through the library's own dec())"""
    return float(a) if type(a) is float else xcfg.denote(a)


def to_notation(dec, kname):
    """the functional conversion of decimal degrees into the notation"""
    if kname == 'float':
        return float(dec)
    return {'deca': ga.DECAngle, 'hpa': ga.dec2hpa, 'gona': ga.dec2gona, 'dms': ga.dec2dms, 'ddm': ga.dec2ddm}[kname](dec)


def hx(v):
    return None if v is None else float(v).hex()


def skey(o):
    if isinstance(o, gco.CoordCart):
        return ('cart', hx(o.xaxis), hx(o.yaxis), hx(o.zaxis), hx(o.nval))
    if isinstance(o, gco.CoordGeo):
        return ('geo', ang_key(o.lat), ang_key(o.lon), hx(o.ell_ht), hx(o.orth_ht))
    if isinstance(o, gco.CoordTM):
        pn = [k for k, v in PRJ.items() if v is o.projection]
        return ('tm', o.zone, hx(o.east), hx(o.north), hx(o.ell_ht), hx(o.orth_ht), o.hemi_north, pn[0] if pn else 'other')
    return ('other', repr(o))


def surface_xyz(o, cfg):
    """horizontal position of a state as a point on the ellipsoid (oracles only)"""
    ell, prj = CONFIGS[cfg]
    a, invf = AF[ell]
    if isinstance(o, gco.CoordCart):
        la, lo, h = om.xyz2llh_mp(o.xaxis, o.yaxis, o.zaxis, a, invf)
        la, lo = float(la), float(lo)
    elif isinstance(o, gco.CoordGeo):
        la, lo = dec_of(o.lat), dec_of(o.lon)
    else:
        p = o.projection
        fe, fn, k0 = float(p.falseeast), float(p.falsenorth), float(p.cmscale)
        if p is gc.isg:
            cmv = {541: 139.0, 542: 141.0, 543: 143.0, 551: 145.0, 552: 147.0, 553: 149.0, 561: 151.0, 562: 153.0, 563: 155.0,
                   572: 159.0}.get(o.zone)
            if cmv is None:
                return None
        else:
            cmv = float(p.initialcm) + (o.zone - 1) * float(p.zonewidth)
        nn = o.north if o.hemi_north else o.north - fn
        lat_, dl_, _, _ = oracle_tm.inverse_np(np.array([nn]), np.array([o.east - fe]), a, invf, k0)
        la, lo = float(lat_[0]), cmv + float(dl_[0])
    return og.xyz_np(np.array(la), np.array(lo), a, invf)


def transitions(o, cfg):
    ell, prj = CONFIGS[cfg]
    E, P = ELL[ell], PRJ[prj]
    if isinstance(o, gco.CoordCart):
        for kn, cls in NOTATIONS.items():
            yield ('cart.geo:' + kn, lambda cls=cls: o.geo(E, cls))
        yield ('cart.tm', lambda: o.tm(E, P))
    elif isinstance(o, gco.CoordGeo):
        yield ('geo.cart', lambda: o.cart(E))
        yield ('geo.tm', lambda: o.tm(E, P))
        for kn, cls in NOTATIONS.items():
            yield ('geo.notation:' + kn, lambda cls=cls: o.notation(cls))
    else:
        for kn, cls in NOTATIONS.items():
            yield ('tm.geo:' + kn, lambda cls=cls: o.geo(E, cls))
        yield ('tm.cart', lambda: o.cart(E))


def same_ang(a, b):
    return ang_key(a) == ang_key(b)


def check_edge(rec, label, o, r, cfg, fail):
    """the numbers of the functional API, height transport, N = h - H"""
    ell, prj = CONFIGS[cfg]
    E, P = ELL[ell], PRJ[prj]
    op = label.split(':')[0]
    kn = label.split(':')[1] if ':' in label else None
    if op in ('cart.geo',):
        if not isinstance(r, gco.CoordGeo):
            return fail('did not return a CoordGeo')
        la, lo, h = xyz2llh(o.xaxis, o.yaxis, o.zaxis, E)
        if not (same_ang(r.lat, to_notation(la, kn)) and same_ang(r.lon, to_notation(lo, kn)) and r.ell_ht == h):
            fail('CoordCart.geo differs from xyz2llh for the same ellipsoid/notation', [repr(r.lat), repr(r.lon), r.ell_ht], [la, lo, h])
        exp_H = None if o.nval is None else h - o.nval
        if (r.orth_ht is None) != (exp_H is None) or (exp_H is not None and abs(r.orth_ht - exp_H) > 1e-9):
            fail('orthometric height is not ellipsoidal height - N after Cartesian -> geographic', r.orth_ht, exp_H)
    elif op == 'geo.cart':
        if not isinstance(r, gco.CoordCart):
            return fail('did not return a CoordCart')
        h = 0.0 if o.ell_ht is None else o.ell_ht
        x, y, z = llh2xyz(o.lat, o.lon, h, E)
        if (r.xaxis, r.yaxis, r.zaxis) != (float(x), float(y), float(z)):
            fail('CoordGeo.cart differs from llh2xyz for the same ellipsoid', [r.xaxis, r.yaxis, r.zaxis], [x, y, z])
        exp_n = None if (o.ell_ht is None or o.orth_ht is None) else o.ell_ht - o.orth_ht
        if (r.nval is None) != (exp_n is None) or (exp_n is not None and abs(r.nval - exp_n) > 1e-9):
            fail('N is not ellipsoidal - orthometric height after geographic -> Cartesian (zero is a value, not "absent")', r.nval, exp_n)
    elif op == 'geo.tm':
        if not isinstance(r, gco.CoordTM):
            return fail('did not return a CoordTM')
        hemi, zone, east, north, _, _ = geo2grid(o.lat, o.lon, 0, E, P)
        if (r.zone, r.east, r.north, r.hemi_north) != (zone, east, north, hemi == 'North') or r.projection is not P:
            fail('CoordGeo.tm differs from geo2grid for the same ellipsoid/projection',
                 [r.zone, r.east, r.north, r.hemi_north], [zone, east, north, hemi])
        if (hx(r.ell_ht), hx(r.orth_ht)) != (hx(o.ell_ht), hx(o.orth_ht)):
            fail('heights not preserved by geographic -> projected', [r.ell_ht, r.orth_ht], [o.ell_ht, o.orth_ht])
    elif op == 'tm.geo':
        if not isinstance(r, gco.CoordGeo):
            return fail('did not return a CoordGeo')
        la, lo, _, _ = grid2geo(o.zone, o.east, o.north, 'north' if o.hemi_north else 'south', E, o.projection)
        if not (same_ang(r.lat, to_notation(la, kn)) and same_ang(r.lon, to_notation(lo, kn))):
            fail('CoordTM.geo differs from grid2geo for the same ellipsoid/projection/notation', [repr(r.lat), repr(r.lon)], [la, lo])
        if (hx(r.ell_ht), hx(r.orth_ht)) != (hx(o.ell_ht), hx(o.orth_ht)):
            fail('heights not preserved by projected -> geographic', [r.ell_ht, r.orth_ht], [o.ell_ht, o.orth_ht])
    elif op == 'geo.notation':
        if not isinstance(r, gco.CoordGeo):
            return fail('did not return a CoordGeo')
        if ang_kind(r.lat) != kn or ang_kind(r.lon) != kn:
            fail('notation() did not produce the requested angle type', [ang_kind(r.lat), ang_kind(r.lon)], kn)
        tol = 1e-8 / 3600
        if abs(dec_of(r.lat) - dec_of(o.lat)) > tol or abs(dec_of(r.lon) - dec_of(o.lon)) > tol:
            fail('notation() changed the position', [repr(r.lat), repr(r.lon)], [repr(o.lat), repr(o.lon)])
        if (hx(r.ell_ht), hx(r.orth_ht)) != (hx(o.ell_ht), hx(o.orth_ht)):
            fail('notation() changed the heights', [r.ell_ht, r.orth_ht], [o.ell_ht, o.orth_ht])
    elif op == 'cart.tm':
        exp = o.geo(E).tm(E, P)
        if skey(exp) != skey(r):
            fail('CoordCart.tm differs from geo().tm()', repr(r), repr(exp))
    elif op == 'tm.cart':
        exp = o.geo(E).cart(E)
        if skey(exp) != skey(r):
            fail('CoordTM.cart differs from geo().cart()', repr(r), repr(exp))


PUBLIC = {gco.CoordGeo: ['lat', 'lon', 'ell_ht', 'orth_ht'], gco.CoordCart: ['xaxis', 'yaxis', 'zaxis', 'nval'],
          gco.CoordTM: ['zone', 'east', 'north', 'ell_ht', 'orth_ht', 'hemi_north', 'projection']}


def build(start, cfg):
    """start['form']: None      the object as constructed
                      'updated' an object constructed for ANOTHER point, used, and then updated through its public fields
                      'edited'  (DMS / DDM notations) the angle objects it holds edited in place to the new position"""
    o = build0(start, cfg)
    form = start.get('form')
    if not form:
        return o
    other = dict(start, pos=[start['pos'][0] + 0.25, start['pos'][1] + 0.3], h=17.0, H=3.0, nval=2.0)
    if start['rep'] == 'tmfixed':
        other['grid'] = [start['grid'][0], start['grid'][1] + 1234.5, start['grid'][2] - 4321.0, start['grid'][3]]
    o2 = build0(other, cfg)
    for label, fn in transitions(o2, cfg):          # the object has been used before it changes
        try:
            fn()
        except Exception:
            pass
    repr(o2), o2 == o2
    if form == 'updated':
        for f in PUBLIC[type(o)]:
            setattr(o2, f, getattr(o, f))
        return o2
    if form == 'edited':
        for f in ('lat', 'lon'):
            src, dst = getattr(o, f), getattr(o2, f)
            for g in (['degree', 'minute', 'second', 'positive'] if isinstance(src, ga.DMSAngle) else ['degree', 'minute', 'positive']):
                setattr(dst, g, getattr(src, g))
        o2.ell_ht, o2.orth_ht = o.ell_ht, o.orth_ht
        return o2
    raise HarnessError('unknown form %r' % form)


def build0(start, cfg):
    ell, prj = CONFIGS[cfg]
    E, P = ELL[ell], PRJ[prj]
    rep = start['rep']
    lat, lon = start['pos']
    if rep == 'tmfixed':
        z, e, n, north = start['grid']
        return gco.CoordTM(z, e, n, start['h'], start['H'], north, P)
    if rep == 'cart':
        h = start['h'] if start['h'] is not None else 0.0
        x, y, z = llh2xyz(lat, lon, h, E)
        return gco.CoordCart(x, y, z, start['nval'])
    if rep == 'tm':
        hemi, zone, east, north, _, _ = geo2grid(lat, lon, 0, E, P)
        return gco.CoordTM(zone, east, north, start['h'], start['H'], hemi == 'North', P)
    kn = rep.split(':')[1]
    return gco.CoordGeo(to_notation(lat, kn), to_notation(lon, kn), start['h'], start['H'])


def gen(tier, seed):
    depth = 4 if tier == 'thorough' else 3
    for cfg in CONFIGS:
        poss = POS_ISG if cfg == 'ans-isg' else POS_ANY
        for pos in poss:
            for h in HEIGHTS:
                for H in HEIGHTS:
                    yield {'cfg': cfg, 'rep': 'geo:float', 'pos': list(pos), 'h': h, 'H': H, 'depth': depth}
            for kn in ('deca', 'hpa', 'gona', 'dms', 'ddm'):
                yield {'cfg': cfg, 'rep': 'geo:' + kn, 'pos': list(pos), 'h': 603.2489, 'H': 0.0, 'depth': depth}
            for nv in NVALS:
                for h in (0.0, 603.2489):
                    yield {'cfg': cfg, 'rep': 'cart', 'pos': list(pos), 'h': h, 'H': None, 'nval': nv, 'depth': depth}
            for (h, H) in ((None, None), (0.0, 5.0), (-12.5, 0.0), (603.2489, 588.9799)):
                yield {'cfg': cfg, 'rep': 'tm', 'pos': list(pos), 'h': h, 'H': H, 'depth': depth}
    # coordinate objects that were updated after construction (a survey mark whose position is refined; an object reused
    # for the next point of a list): conversions must describe the CURRENT fields
    for cfg in CONFIGS:
        poss = POS_ISG[:2] if cfg == 'ans-isg' else [POS_ANY[0], POS_ANY[2], POS_ANY[5]]
        for pos in poss:
            for rep, form in (('geo:float', 'updated'), ('geo:dms', 'updated'), ('geo:hpa', 'updated'), ('geo:dms', 'edited'), ('geo:ddm', 'edited'),
                              ('cart', 'updated'), ('tm', 'updated')):
                yield {'cfg': cfg, 'rep': rep, 'pos': list(pos), 'h': 603.2489, 'H': None if rep == 'cart' else 588.9799, 'nval': 14.269,
                       'depth': 2, 'form': form}
    # projected coordinates given directly, in BOTH hemispheres of every projection (an ISG-style grid used north of the equator is
    # unusual, not illegal: the hemisphere flag means the same for every projection)
    for cfg, grids in (('ans-isg', ([561, 318743.2, 1291327.7, True], [553, 250000.0, 3500000.0, True], [561, 318743.2, 1291327.7, False])),
                       ('grs80-utm', ([31, 612345.6789, 6234567.891, True], [60, 400000.0, 2000000.0, True])),
                       ('ans-utm', ([1, 700000.0, 500000.0, True],))):
        for grid in grids:
            for (h, H) in ((None, None), (603.2489, 588.9799)):
                yield {'cfg': cfg, 'rep': 'tmfixed', 'grid': list(grid), 'pos': [0.0, 0.0], 'h': h, 'H': H, 'depth': 3}
    # the SAME grid numbers interpreted on two ellipsoids within one process, in both orders
    for a, b in (('grs80-utm', 'ans-utm'), ('ans-utm', 'grs80-utm')):
        for grid in ([55, 300000.0, 6200000.0, False], [31, 612345.6789, 1234567.891, True]):
            yield {'cfg': a, 'then': b, 'rep': 'tmfixed', 'grid': grid, 'pos': [0.0, 0.0], 'h': 10.0, 'H': None, 'depth': 2}


def ev(case, rec):
    if case.get('then'):
        first = dict(case)
        second = dict(case, cfg=case['then'])
        del first['then'], second['then']
        ev(first, rec)
        ev(second, rec)
        return
    cfg = case['cfg']
    try:
        s0 = build(case, cfg)
    except Exception as e:
        rec.fail('valid coordinate object could not be constructed', site='coord:construct:' + case['rep'], observed=e)
        return
    ref = surface_xyz(s0, cfg)
    seen = {skey(s0)}
    rec.state(skey(s0))
    rec.nontriv()
    frontier = [(s0, 0, [])]
    while frontier:
        o, d, path = frontier.pop(0)
        if d >= case['depth']:
            continue
        o_key = skey(o)
        for label, fn in transitions(o, cfg):
            rec.transitions += 1
            site = 'coord:' + label.split(':')[0]
            try:
                r = fn()
            except Exception as e:
                rec.fail('conversion raised on a valid coordinate object', site=site + ':raise', observed=e,
                         coords={'path': path + [label], 'cfg': cfg, 'exc': type(e).__name__})
                rec.outcome('raise')
                continue
            flagged = []
            if skey(o) != o_key:
                rec.fail('conversion modified the coordinate object it was called on', site=site + ':mutation', observed=repr(o),
                         coords={'path': path + [label], 'cfg': cfg})
                rec.outcome('mutated')
                break

            def fail(msg, observed=None, expected=None):
                flagged.append(msg)
                rec.fail(msg, site=site, observed=observed, expected=expected, coords={'path': path + [label], 'cfg': cfg})
            check_edge(rec, label, o, r, cfg, fail)
            p = surface_xyz(r, cfg)
            if p is None:
                fail('projected coordinate carries a zone that does not exist in its projection', repr(r))
            else:
                dist = float(np.linalg.norm(p - ref))
                rec.dev('position_m', dist)
                if not (dist <= 3e-4):
                    fail('after this chain of conversions the object no longer denotes the starting position (0.3 mm)',
                         repr(r), 'moved by %.4f m' % dist)
            k = skey(r)
            if k not in seen:
                seen.add(k)
                rec.states.add(hash(k) & 0xFFFFFFFFFFFFFFFF)
                if not flagged:
                    frontier.append((r, d + 1, path + [label]))
    rec.outcome('explored')
    rec.sample({'case': case, 'reachable_states': len(seen)})


# --- two threads converting DIFFERENT points (different heights, zones, ellipsoids) at the same time -------------------------
from gpmc import threads as _thr
T_CALLS = {
    'cart.tm': lambda: (lambda o=gco.CoordCart(-4052051.7643, 4212836.2017, -2545106.0245, 12.5): o.tm()),
    'cart.tm_ans': lambda: (lambda o=gco.CoordCart(-4646678.6, 2553206.1, -3534319.9, None): o.tm(gc.ans, gc.isg)),
    'tm.cart': lambda: (lambda o=gco.CoordTM(53, 386352.3979, 7381850.7689, 603.3, 588.1): o.cart()),
    'tm.cart_h0': lambda: (lambda o=gco.CoordTM(55, 300000.0, 6200000.0, 0.0, None): o.cart(gc.ans)),
    'tm.geo': lambda: (lambda o=gco.CoordTM(31, 612345.6789, 1234567.891, -12.5, 3.0, True): o.geo(gc.grs80, ga.DMSAngle)),
    'geo.tm': lambda: (lambda o=gco.CoordGeo(ga.DMSAngle(-23, 40, 12.5), ga.DMSAngle(133, 52, 48.0), None, 588.1): o.tm()),
    'geo.cart': lambda: (lambda o=gco.CoordGeo(-33.5, 151.2, 17.0, 4.0): o.cart(gc.ans)),
    'cart.geo': lambda: (lambda o=gco.CoordCart(2765120.7, -4449250.0, 3626405.6, 0.0): o.geo(gc.grs80, ga.HPAngle)),
    'geo.notation': lambda: (lambda o=gco.CoordGeo(ga.HPAngle(-23.40125), ga.HPAngle(133.5248), 1.0, None): o.notation(ga.GONAngle)),
}
_tg, _te = _thr.make(T_CALLS, ['geodepy/coord.py'], 'coord:threads', files_thorough=['geodepy/convert.py'],
                     quick=['cart.tm', 'tm.cart', 'tm.cart_h0', 'geo.tm', 'cart.tm_ans'], triple=('cart.tm', 'tm.cart_h0', 'geo.cart'))

from gpmc import callforms as _cf


from gpmc import interp as _ip


SUBCHECKS = [Sub('graph', gen, ev, chunk=2, floor=200, envs=4), Sub('threads', _tg, _te, chunk=1, floor=5, poison=False, fresh=True, timeout=7200), Sub('callforms', *_cf.make('C15', 'coord'), chunk=1, floor=1, guard=True), Sub('interpreter', *_ip.make('C15', 'coord'), chunk=1, floor=5, poison=False)]


def bounds(tier, seed):
    return {'configs': CONFIGS, 'notations': list(NOTATIONS), 'heights': HEIGHTS, 'nvals': NVALS,
            'positions': len(POS_ANY), 'depth': 4 if tier == 'thorough' else 3}
