"""C13 — MGA94 <-> MGA2020 transformations are mutual inverses and match their definition.

Space: zones 46..59 (plus a structural set of other zones for the algebraic part) x eastings 100 000..900 000 x
northings covering latitudes -60..-5 deg (-80..0 for the algebraic part) x height {absent, -100, 0, 603.3466, 3000}
x covariance {None, PSD 3x3 lattice, 3x1 variance column}; zone-boundary points whose image lies in the
neighbouring natural zone.  Depth 2 (there, back).
Oracle: the stepwise composition built from independent pieces — exact TM inverse, closed-form geodetic->Cartesian
(40 digits), exact 7-parameter formula, reference Cartesian->geodetic, exact TM forward in the natural zone of the
transformed position; covariance = R2^T (J (R1 S R1^T (+) Q_par) J^T) R2 from the Helmert oracle.
"""
import math

import mpmath as mp
import numpy as np

import geodepy.constants as gc
from geodepy.transform import transform_mga94_to_mga2020, transform_mga2020_to_mga94
from gpmc import cfg
from gpmc import oracle_tm, oracle_misc as om, oracle_geod as og
from gpmc.cfg import uniq, fill
from gpmc.core import Sub, HarnessError
from gpmc.checks.c06 import psd_lattice

PROPERTY = 'C13'
ASSUMPTIONS = [
    'the definition is rebuilt from independent oracle pieces (exact TM, closed forms in 40 digits, exact Helmert formula)',
    'agreement with the composition is asserted at the resolution the functions return (0.1 mm grid, 0.1 mm height): 0.2 mm',
    'a 3x1 variance column is read as a diagonal local covariance; either a 3x3 matrix or its 3x1 diagonal is accepted back',
    'the functions only accept southern-hemisphere grid coordinates (default hemisphere), so the algebraic part covers lat -80..0',
]
A_GRS, F_GRS = 6378137.0, 298.257222101
K0, FE, FN = 0.9996, 500000.0, 10000000.0
HEIGHTS = [None, -100.0, 0.0, 603.3466, 3000.0]
FIELDS = ['tx', 'ty', 'tz', 'sc', 'rx', 'ry', 'rz']
SDF = ['sd_tx', 'sd_ty', 'sd_tz', 'sd_sc', 'sd_rx', 'sd_ry', 'sd_rz']
_SC = {}


def prepare(tier, seed):
    sc = oracle_tm.selfcheck()
    sc2 = om.helmert_selfcheck()
    _SC.update({'tm': sc, 'helmert': sc2})
    if not (sc['ok'] and sc2['ok']):
        raise HarnessError('oracle self-check failed: %r' % _SC)


def evidence_extra():
    return {'oracle_selfcheck': dict(_SC)}


_P0 = {f: om.dec_str(getattr(gc.gda94_to_gda2020, f)) for f in FIELDS}      # import-time values


def par(direction):
    t = gc.gda94_to_gda2020
    p = dict(_P0)
    if direction == 'back':
        p = {k: -v for k, v in p.items()}
    sd = {k: om.dec_str(getattr(t.tf_sd, k)) for k in SDF}
    return p, sd


def cm(zone):
    return -177.0 + (zone - 1) * 6.0


def natural_zone(lon):
    return int(math.floor((lon + 180.0) / 6.0)) + 1


def grid_to_geo(zone, e, n):
    la, dl, _, _ = oracle_tm.inverse_np(np.array([n - FN]), np.array([e - FE]), A_GRS, F_GRS, K0)
    return float(la[0]), cm(zone) + float(dl[0])


def geo_to_grid(lat, lon, zone):
    n_, e_, _, _ = oracle_tm.forward_np(np.array([lat]), np.array([lon - cm(zone)]), A_GRS, F_GRS, K0)
    return FE + float(e_[0]), FN + float(n_[0])


def rot_mp(lat, lon):
    with mp.workdps(30):
        la, lo = mp.radians(mp.mpf(lat)), mp.radians(mp.mpf(lon))
        return mp.matrix([[-mp.sin(lo), -mp.sin(la) * mp.cos(lo), mp.cos(la) * mp.cos(lo)],
                          [mp.cos(lo), -mp.sin(la) * mp.sin(lo), mp.cos(la) * mp.sin(lo)],
                          [0, mp.cos(la), mp.sin(la)]])


def oracle_transform(direction, zone, e, n, h, vcv):
    """the definition, step by step; returns dict(zone, east, north, height, lat, lon, vcv)"""
    p, sd = par(direction)
    lat, lon = grid_to_geo(zone, e, n)
    hh = 0.0 if h is None else h
    xyz = om.llh2xyz_mp(lat, lon, hh, A_GRS, F_GRS)
    xyz2 = om.helmert_mp(xyz, p)
    lat2, lon2, h2 = om.xyz2llh_mp(xyz2[0], xyz2[1], xyz2[2], A_GRS, F_GRS)
    lat2f, lon2f = float(lat2), float(lon2)
    z2 = natural_zone(lon2f)
    e2, n2 = geo_to_grid(lat2f, lon2f, z2)
    out = {'zone': z2, 'east': e2, 'north': n2, 'height': 0.0 if h is None else float(h2), 'lat': lat2f, 'lon': lon2f,
           'lat1': lat, 'lon1': lon}
    if vcv is not None:
        with mp.workdps(30):
            S = mp.matrix(vcv) if len(vcv[0]) == 3 else mp.diag([vcv[0][0], vcv[1][0], vcv[2][0]])
            R1 = rot_mp(lat, lon)
            cart = R1 * S * R1.T
            cov = om.helmert_cov_mp(xyz, p, [[cart[i, j] for j in range(3)] for i in range(3)], sd)
            R2 = rot_mp(lat2f, lon2f)
            loc = R2.T * cov * R2
            out['vcv'] = np.array([[float(loc[i, j]) for j in range(3)] for i in range(3)])
    return out


def easts(tier, seed):
    # 300000.0004 / 300000.00049: neighbours of 300000 closer than a millimetre (anything keyed or rounded at mm level
    # would treat them as the same point; 0.4 mm is above the 0.2 mm agreement tolerance)
    return uniq([1e5, 3e5, 300000.0004, 300000.00049, 5e5, 7e5, 9e5, 499999.9999] + fill(1e5, 9e5, 2e5 if tier == 'quick' else 5e4, seed, 41))


def norths(tier, seed, lo=3.35e6, hi=9.45e6):
    return uniq([lo, hi] + fill(lo, hi, 6.1e5 if tier == 'quick' else 1.5e5, seed, 42))


def gen(tier, seed):
    for z in range(46, 60):
        for n in norths(tier, seed):
            yield {'zone': z, 'north': n, 'easts': easts(tier, seed), 'heights': HEIGHTS, 'mode': 'lattice'}
    # the algebraic part on the wider (southern) UTM domain
    for z in (1, 2, 30, 31, 45, 60):
        for n in norths(tier, seed, 1.2e6, 9.999e6):
            yield {'zone': z, 'north': n, 'easts': [2e5, 5e5, 8e5], 'heights': [None, 603.3466], 'mode': 'lattice'}
    # zone-boundary points: just west / east of the zone edge, so the transformed position changes natural zone
    for z in (49, 52, 55, 56):
        for lat in (-12.0, -25.3, -33.9, -42.8):
            for dlon, nb in ((3.0 - 5e-6, 'east'), (-3.0 + 5e-6, 'west'), (3.0 + 5e-6, 'east-out'), (-3.0 - 5e-6, 'west-out')):
                e, n = geo_to_grid(lat, cm(z) + dlon, z)
                yield {'zone': z, 'north': round(n, 4), 'easts': [round(e, 4)], 'heights': [None, 10.0], 'mode': 'boundary-' + nb}


    # inputs chosen so that the TRANSFORMED position lands a fraction of a millimetre west / east of a zone boundary (the condition is
    # on the output: the input is obtained by carrying the target back through the definition with the opposite parameters)
    for z in (49, 52, 55):
        for lat in (-12.0, -25.3, -33.9, -42.8):
            for direction in ('fwd', 'back'):
                for off in (-2e-9, -4.5e-9, 2e-9, -1.2e-8):
                    lon_t = cm(z) + 3.0 + off
                    p_inv, _ = par('back' if direction == 'fwd' else 'fwd')
                    xyz_t = om.llh2xyz_mp(lat, lon_t, 0.0, A_GRS, F_GRS)
                    xyz_i = om.helmert_mp(xyz_t, p_inv)
                    la_i, lo_i, _h = om.xyz2llh_mp(xyz_i[0], xyz_i[1], xyz_i[2], A_GRS, F_GRS)
                    zi = natural_zone(float(lo_i))
                    e, n = geo_to_grid(float(la_i), float(lo_i), zi)
                    yield {'zone': zi, 'north': round(n, 4), 'easts': [round(e, 4)], 'heights': [None], 'mode': 'boundary-target-%s' % direction}


def cart_of(zone, e, n, h):
    lat, lon = grid_to_geo(zone, e, n)
    return [float(v) for v in om.llh2xyz_mp(lat, lon, h, A_GRS, F_GRS)], lat, lon


def ev(case, rec):
    z, n = case['zone'], case['north']
    for e in case['easts']:
        href = {}
        for h in case['heights']:
            for direction, fn, inv in (('fwd', transform_mga94_to_mga2020, transform_mga2020_to_mga94),
                                       ('back', transform_mga2020_to_mga94, transform_mga94_to_mga2020)):
                one = dict(case, easts=[e], heights=[h], direction=direction)
                co = {'zone': z, 'east': e, 'north': n, 'h': h, 'dir': direction, 'mode': case['mode']}
                args = [z, e, n] if h is None else [z, e, n, h]
                st, r = rec.call(fn, *args)
                if st != 'ok':
                    rec.fail('transformation raised on a valid MGA coordinate', site='transform:mga:%s' % direction, observed=r,
                             case=one, coords=co)
                    continue
                rec.nontriv((z, e, n, h, direction))
                rec.state((direction,) + tuple(float(v).hex() for v in r[:4]))
                # the same coordinate in other numeric forms (numpy scalars; ints where integral; zone as float)
                fa = [np.int64(z), np.float64(e), np.float64(n)] + ([] if h is None else [np.float64(h)])
                stf, rf = rec.call(fn, *fa)
                if stf != 'ok' or tuple(rf[:4]) != tuple(r[:4]):
                    rec.fail('the transformation gives a different result for numpy-scalar arguments', site='transform:mga:input-form',
                             observed=rf, expected=list(r[:4]), case=one, coords=co)
                if float(e).is_integer() and float(n).is_integer() and (h is None or float(h).is_integer()):
                    fa = [float(z), int(e), int(n)] + ([] if h is None else [int(h)])
                    stf, rf = rec.call(fn, *fa)
                    if stf != 'ok' or tuple(rf[:4]) != tuple(r[:4]):
                        rec.fail('the transformation gives a different result for integer arguments (a height of int 0 is a height)',
                                 site='transform:mga:input-form', observed=rf, expected=list(r[:4]), case=one, coords=co)
                o = oracle_transform(direction, z, e, n, h, None)
                bad = False
                if r[4] is not None:
                    bad = True
                    rec.fail('a covariance was returned although none was supplied', site='transform:mga:vcv-none', observed=r[4],
                             case=one, coords=co)
                # natural zone (not judged when the transformed longitude is within 5e-10 deg - 0.05 mm - of a zone edge: the library's
                # own longitude carries the 1e-11 deg rounding of grid2geo)
                edge = abs(((o['lon'] + 180.0) % 6.0 + 3.0) % 6.0 - 3.0)
                if edge > 5e-10:
                    if r[0] != o['zone']:
                        bad = True
                        rec.fail('result is not expressed in the natural zone of the transformed position', site='transform:mga:zone',
                                 observed=r[0], expected=o['zone'], case=one, coords=co)
                    else:
                        de, dn = abs(r[1] - o['east']), abs(r[2] - o['north'])
                        rec.dev('composition_m', max(de, dn), one)
                        if not (de <= 2e-4 and dn <= 2e-4):
                            bad = True
                            rec.fail('result differs from the stepwise composition grid->geo->Cartesian->7-parameter->geo->grid',
                                     site='transform:mga:composition', observed=[r[1], r[2]], expected=[o['east'], o['north']],
                                     tol=2e-4, case=one, coords=co)
                dh = abs(r[3] - o['height'])
                rec.dev('height_m', dh, one)
                if h is None:
                    if r[3] != 0:
                        bad = True
                        rec.fail('without an input height the returned height is not zero', site='transform:mga:noheight',
                                 observed=r[3], expected=0, case=one, coords=co)
                    href[direction] = r[:3]
                elif not (dh <= 2e-4):
                    bad = True
                    rec.fail('returned ellipsoidal height differs from the stepwise composition', site='transform:mga:height',
                             observed=r[3], expected=o['height'], tol=2e-4, case=one, coords=co)
                if h == 0.0 and direction in href and tuple(href[direction]) != tuple(r[:3]):
                    bad = True
                    rec.fail('horizontal result without a height differs from the result for height 0', site='transform:mga:noheight-h0',
                             observed=list(href[direction]), expected=list(r[:3]), case=one, coords=co)
                # depth 2: back with the inverse function
                args2 = [r[0], r[1], r[2]] if h is None else [r[0], r[1], r[2], r[3]]
                st, b = rec.call(inv, *args2)
                if st != 'ok':
                    rec.fail('inverse transformation raised on the image of a valid coordinate', site='transform:mga:back', observed=b,
                             case=one, coords=co)
                    continue
                hh = 0.0 if h is None else h
                c0, la0, lo0 = cart_of(z, e, n, 0.0)
                c1, la1, lo1 = cart_of(b[0], b[1], b[2], 0.0)
                dpos = math.sqrt(sum((u - v) ** 2 for u, v in zip(c0, c1)))
                dhh = abs(b[3] - hh) if h is not None else abs(b[3])
                rec.dev('roundtrip_pos_m', dpos, one)
                rec.dev('roundtrip_h_m', dhh, one)
                if not (dpos <= 3e-4 and dhh <= 2e-4):
                    bad = True
                    rec.fail('there-and-back does not return the same ground position (0.3 mm) / height (0.2 mm)',
                             site='transform:mga:roundtrip', observed=list(b[:4]), expected=[z, e, n, hh], tol=[3e-4, 2e-4],
                             case=one, coords=dict(co, dpos=dpos, dh=dhh))
                rec.outcome('bad' if bad else 'ok-' + case['mode'])
    rec.sample({'case': dict(case, easts=case['easts'][:2])})


# --- covariance -----------------------------------------------------------------------------------------
def gen_cov(tier, seed):
    mats = psd_lattice(tier)
    cols = [[[1e-4], [2e-4], [3e-4]], [[0.0], [0.0], [0.0]], [[1.0], [1e-8], [1e-4]], [[1.0], [1.0], [4.0]], [[4.0], [0.0], [9.0]]]
    mats = mats + [[[4.0, 1.0, 0.0], [1.0, 3.0, -1.0], [0.0, -1.0, 9.0]], [[2.0, 2.0, 0.0], [2.0, 2.0, 0.0], [0.0, 0.0, 1.0]]]      # whole numbers: also as integer arrays
    pts = [(53, 386352.3979, 7381850.7689, 603.3466), (55, 2e5, 5.8e6, None), (50, 9e5, 9.4e6, 0.0), (59, 5e5, 3.4e6, 3000.0)]
    for p in pts:
        yield {'pt': list(p), 'mats': mats + cols}
    # grid coordinates whose position lies beyond the 180-degree meridian of the stated zone (zone 60 east of it, zone 1 west of it:
    # the longitude of the point as the grid conversion reports it is outside [-180, 180]) and in zones far from Australia
    for p in [(60, 8.3e5, 6.7e6, 10.0), (1, 1.7e5, 6.7e6, None), (60, 7.0e5, 3.4e6, 5.0), (1, 2.9e5, 3.2e6, 0.0), (30, 5e5, 5.0e6, 100.0), (31, 1.7e5, 8.9e6, None)]:
        yield {'pt': list(p), 'mats': mats[::4] + cols[:2]}


def ev_cov(case, rec):
    z, e, n, h = case['pt']
    for m in case['mats']:
        for direction, fn in (('fwd', transform_mga94_to_mga2020), ('back', transform_mga2020_to_mga94)):
            one = dict(case, mats=[m], direction=direction)
            vcv = np.array(m, dtype=float)
            col = vcv.shape == (3, 1)
            args = [z, e, n, False if h is None else h, vcv]
            vb = vcv.tobytes()
            st, r = rec.call(fn, *args)
            co = {'dir': direction, 'column': col, 'pt': case['pt']}
            if vcv.tobytes() != vb:
                rec.fail('the transformation modified the covariance array supplied by the caller', site='transform:mga:vcv-argument',
                         observed=vcv, expected=m, case=one, coords=co)
            if st != 'ok':
                rec.fail('transformation raised when a %s local covariance was supplied' % ('3x1 column' if col else '3x3'),
                         site='transform:mga:vcv:%s' % ('column' if col else 'matrix'), observed=r, case=one, coords=co)
                rec.outcome('raise')
                continue
            rec.nontriv((tuple(case['pt']), repr(m), direction))
            if (len(repr(m)) + int(e)) % 3 == 0 or all(float(v).is_integer() for row in m for v in row):
                cfg.forms_agree(rec, lambda vf: fn(z, e, n, False if h is None else h, vf), m, r, 'transform:mga:vcv', one, co,
                                'the MGA transformation')
            out = r[4]
            if not isinstance(out, np.ndarray) or out.shape not in ((3, 3), (3, 1)):
                rec.fail('no local covariance returned', site='transform:mga:vcv-missing', observed=out, case=one, coords=co)
                continue
            rec.state(('vcv', direction, out.tobytes().hex()[:48]))
            o = oracle_transform(direction, z, e, n, h, m)
            exp = o['vcv']
            scale = max(float(np.max(np.abs(exp))), 1e-300)
            bad = False
            if out.shape == (3, 3):
                rel = float(np.max(np.abs(out - exp))) / scale
                asym = float(np.max(np.abs(out - out.T))) / scale
                w = np.linalg.eigvalsh((out + out.T) / 2)
                if not (asym <= 1e-10):
                    bad = True
                    rec.fail('returned local covariance is not symmetric', site='transform:mga:vcv-sym', observed=out, case=one, coords=co)
                if not (w.min() >= -1e-10 * max(abs(w.max()), 1e-300)):
                    bad = True
                    rec.fail('returned local covariance is not positive semi-definite', site='transform:mga:vcv-psd',
                             observed=w.tolist(), case=one, coords=co)
            else:
                rel = float(np.max(np.abs(out[:, 0] - np.diag(exp)))) / scale
                if not (out.min() >= -1e-10 * scale):
                    bad = True
                    rec.fail('returned variances are negative', site='transform:mga:vcv-psd', observed=out, case=one, coords=co)
            rec.dev('cov_rel', rel, one)
            if not (rel <= 1e-7):
                bad = True
                rec.fail('returned covariance differs from the input carried through the transformation plus the parameter '
                         'uncertainties', site='transform:mga:vcv-value', observed=out, expected=exp.tolist(), tol=1e-7, case=one,
                         coords=dict(co, rel=rel))
            rec.outcome('cov-bad' if bad else 'cov-ok')
    rec.sample({'pt': case['pt'], 'vcv': case['mats'][0]})


def gen_const(tier, seed):
    yield {'what': 'shipped parameter sets named by the property'}


def ev_const(case, rec):
    rec.transition()
    rec.nontriv()
    bad = cfg.published_trans_ok(['gda94_to_gda2020'])
    rec.state(('constants', len(bad)))
    for n, f, got, exp in bad:
        rec.fail('shipped set %s does not carry its published value for %s' % (n, f), site='constants:%s:%s' % (n, f),
                 observed=got, expected=exp)
    rec.outcome('constants-ok' if not bad else 'constants-bad')
    rec.sample({'published': {k: cfg.PUBLISHED_TRANS[k] for k in ['gda94_to_gda2020']}})


# --- two threads transforming DIFFERENT grid points (with different covariances, in both directions) at the same time ------
from gpmc import threads as _thr
import datetime as _dtm
import numpy as _tnp
import geodepy.constants as _tgc
import geodepy.transform as _tgt
import geodepy.convert as _tgv
import geodepy.geodesy as _tgg
import geodepy.statistics as _tgs
import geodepy.survey as _tsv
import geodepy.angles as _tga
_V1 = [[1e-4, 2e-5, -1e-5], [2e-5, 4e-4, 3e-5], [-1e-5, 3e-5, 9e-4]]
_V2 = [[9e-3, -2e-3, 1e-3], [-2e-3, 5e-3, 2e-3], [1e-3, 2e-3, 7e-3]]
T_CALLS = {
    'fwd_53': lambda: (lambda v=_tnp.array(_V1): _tgt.transform_mga94_to_mga2020(53, 386352.3979, 7381850.7689, 603.3466, v)),
    'back_53': lambda: (lambda v=_tnp.array(_V2): _tgt.transform_mga2020_to_mga94(53, 386353.2343, 7381852.2986, 603.2489, v)),
    'fwd_55_col': lambda: (lambda v=_tnp.array([[1e-4], [2e-4], [3e-4]]): _tgt.transform_mga94_to_mga2020(55, 300000.0, 6200000.0, 10.0, v)),
    'back_50_noh': lambda: (lambda: _tgt.transform_mga2020_to_mga94(50, 9e5, 9.4e6)),
    'fwd_59': lambda: (lambda v=_tnp.array(_V2) * 2.0: _tgt.transform_mga94_to_mga2020(59, 5e5, 3.4e6, 3000.0, v)),
}
_tg, _te = _thr.make(T_CALLS, ['geodepy/transform.py', 'geodepy/constants.py'], 'transform:mga:threads',
                     quick=['fwd_53', 'back_53', 'fwd_55_col', 'fwd_59'], triple=('fwd_53', 'back_53', 'back_50_noh'),
                     files_thorough=['geodepy/convert.py'], parts=4)


from gpmc import callforms as _cf


from gpmc import interp as _ip


SUBCHECKS = [
    Sub('constants', gen_const, ev_const, chunk=1, floor=1, parallel=False),
    Sub('grid', gen, ev, chunk=2, floor=500, guard=True, envs=4),
    Sub('covariance', gen_cov, ev_cov, chunk=1, floor=50, guard=True, envs=2),
    Sub('threads', _tg, _te, chunk=1, floor=3, poison=False, fresh=True, timeout=7200),
    Sub('callforms', *_cf.make('C13', 'transform'), chunk=1, floor=1, guard=True),
    Sub('interpreter', *_ip.make('C13', 'transform'), chunk=1, floor=5, poison=False),
]


def bounds(tier, seed):
    return {'zones': list(range(46, 60)), 'extra_zones': [1, 2, 30, 31, 45, 60], 'easts': len(easts(tier, seed)),
            'norths': len(norths(tier, seed)), 'heights': HEIGHTS, 'depth': 2}
