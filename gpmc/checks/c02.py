"""C02 — grid->geographic conversion inverts the forward conversion everywhere.

Sub-checks (each a complete enumeration):
  geo_roundtrip : every C01 state -> grid2geo (depth 2) -> geo2grid (depth 3)
  grid_lattice  : lattice placed directly on the grid (zones x hemispheres x E x N), domain classified
                  by the ORACLE inverse, grid->geo->grid;  mirror pairs (N north / falsenorth-N south)
  standalone    : Standalone/mga2gda.py::grid2geo (loaded by path) and its csv batch path vs the library
"""
import csv
import importlib.util
import math
import os
import time
from fractions import Fraction as F

import numpy as np

from geodepy.convert import geo2grid, grid2geo
from gpmc import cfg, oracle_tm, tmcommon
from gpmc.cfg import ELLS, PRJS, ELL_AF, PRJ_PAR, cm_of, uniq, fill
from gpmc.core import Sub, HarnessError, REPO, SCRATCH

PROPERTY = 'C02'
TOL_M = 2e-4
TOL_DEG = 2e-9
ASSUMPTIONS = [
    'domain clauses (latitude band, 30 deg from CM, longitude range) are evaluated by the exact-TM oracle, not by the code under test',
    '"identical longitudes" for mirror pairs is read at the resolution the API returns (11 decimals): <= 2e-11 deg',
    'continuum decided on a lattice (structural boundaries + regular fill + seed-shifted fill)',
    'geo->grid->geo longitude closure at |lat|>70 deg is limited by the 0.1 mm rounding of the returned grid '
    'coordinates (open finding C02-lon-closure-high-lat, capped by the rounding quantum)',
]
_SC = {}


def prepare(tier, seed):
    sc = oracle_tm.selfcheck()
    _SC.update(sc)
    if not sc['ok']:
        raise HarnessError('TM oracle self-check failed: %r' % sc)


def evidence_extra():
    return {'oracle_selfcheck': dict(_SC)}


def quantum_deg(ell, latf, k):
    """longitude subtended by the 0.05 mm x sqrt(2) rounding of a returned grid coordinate"""
    a, invf = ELL_AF[ell]
    f = 1 / invf
    e2 = f * (2 - f)
    phi = math.radians(latf)
    nu = a / math.sqrt(1 - e2 * math.sin(phi) ** 2)
    return math.degrees(0.5e-4 * math.sqrt(2) / (max(k, 0.5) * nu * max(math.cos(phi), 1e-12)))


def grid_diff(r3, hemi, east, north, lat2, fn):
    """difference between a re-projected grid coordinate and the original; on the equator (|lat| <= 1e-9,
    i.e. within 0.1 mm of it) either hemisphere label is accepted and the northings then differ by exactly
    the false northing"""
    de, dn = abs(r3[2] - east), abs(r3[3] - north)
    if r3[0].lower() != hemi.lower():
        if abs(lat2) > 1e-9:
            dn = float('inf')
        else:
            dn = abs(abs(r3[3] - north) - fn)
    return de, dn


# ------------------------------------------------------------------------------------------
def ev_geo(case, rec):
    res, idx = tmcommon.forward_row(case, rec)
    ell, prj = cfg.ell_obj(case['ell']), PRJS[case['prj']]
    lat = case['lat']
    for d in res:
        if d is None:
            continue
        one = tmcommon.single(case, d['lon'])
        if not (-2830000 <= d['east'] <= 3830000 and 0 <= d['north'] <= 10000000):
            rec.skip('forward image outside the accepted easting/northing range')
            continue
        if case['zone'] == 0 and case['prj'] not in ('isg',) and not (1 <= d['zone'] <= 60):
            rec.skip('zone outside 1..60')
            continue
        st, r = rec.call(grid2geo, d['zone'], d['east'], d['north'], d['hemi'], ell, prj)
        co = {'lat': lat, 'lon': d['lon'], 'abs_lat': abs(lat), 'ell': case['ell'], 'prj': case['prj']}
        if st != 'ok':
            rec.fail('grid2geo raised on the image of a valid position', site='convert:grid2geo', observed=r,
                     case=one, coords=co)
            continue
        lat2, lon2 = r[0], r[1]
        rec.state((case['ell'], case['prj'], d['zone'], float(lat2).hex(), float(lon2).hex()))
        rec.nontriv((case['ell'], case['prj'], case['zone'], lat, d['lon'], case.get('kind')))
        dlat, dlon = abs(lat2 - d['latf']), abs(lon2 - d['lonf'])
        if dlon > 180.0:
            # an explicit zone across the 180-degree meridian: the inverse reports the longitude continuously from its central
            # meridian (zone 1: -183 for +177). The position is the same; the round trip is judged modulo 360 degrees.
            dlon = abs((lon2 - d['lonf'] + 180.0) % 360.0 - 180.0)
            rec.outcome('lon-mod-360')
        rec.dev('lat_deg', dlat, one)
        q = quantum_deg(case['ell'], d['latf'], d['o_k'])
        rec.dev('lon_deg_minus_quantum', dlon - q, one)
        if dlat > TOL_DEG or dlat != dlat:
            rec.fail('geo->grid->geo latitude differs by more than 2e-9 deg', site='convert:grid2geo:lat',
                     observed=lat2, expected=d['latf'], tol=TOL_DEG, case=one, coords=dict(co, dlat=dlat))
        if dlon > TOL_DEG or dlon != dlon:
            rec.fail('geo->grid->geo longitude differs by more than 2e-9 deg', site='convert:grid2geo:lon',
                     observed=lon2, expected=d['lonf'], tol=TOL_DEG, case=one,
                     coords=dict(co, dlon=dlon, quantum=q, ratio=dlon / (q + 2e-10)))
        rec.outcome('ok' if dlat <= TOL_DEG and dlon <= TOL_DEG else 'open')
        # depth 3: forward again from the returned position
        if -80 + 1e-6 <= lat2 <= 84 - 1e-6 and -180 <= lon2 <= 180:
            st, r3 = rec.call(geo2grid, lat2, lon2, d['zone'], ell, prj)
            if st != 'ok':
                rec.fail('geo2grid raised on a position returned by grid2geo', site='convert:geo2grid', observed=r3,
                         case=one, coords=co)
                continue
            de, dn = grid_diff(r3, d['hemi'], d['east'], d['north'], lat2, PRJ_PAR[case['prj']][1])
            rec.dev('regrid_m', max(de, dn), one)
            if de > TOL_M or dn > TOL_M:
                rec.fail('grid->geo->grid does not return the same easting/northing within 0.2 mm',
                         site='convert:roundtrip:grid', observed=[r3[2], r3[3]], expected=[d['east'], d['north']],
                         tol=TOL_M, case=one, coords=co)


def gen_geo(tier, seed):
    return tmcommon.gen_rows(tier, seed, kinds=False)


# ------------------------------------------------------------------------------------------
X_OFF = [-3.33e6, -2.2e6, -1.5e6, -4e5, -1e-4, 0.0, 1e-4, 4e-4, 4e5, 400000.0004, 1.5e6, 2.2e6, 3.33e6]
N_ABS = [0.0, 1e-4, 1e6, 5e6, 5000000.0004, 9e6, 1e7 - 1e-4, 1e7]


def gen_grid(tier, seed):
    xs = uniq(X_OFF + fill(-3.3e6, 3.3e6, 5e5 if tier == 'quick' else 1.25e5, seed, 5))
    ns = uniq(N_ABS + fill(0.0, 1e7, 5e5 if tier == 'quick' else 1.25e5, seed, 6))
    for ell, prj in cfg.TM_CONFIGS:
        fe = PRJ_PAR[prj][0]
        zs = tmcommon.explicit_zones(prj, 'quick')
        if tier == 'thorough' and prj not in ('isg', 'isg2'):
            # the grid lattice is translation-invariant in the zone number: a structural set of zones with the fine E/N lattice
            zs = sorted(set(zs) | {z for z in (3, 15, 29, 32, 45, 46, 58) if z <= cfg.n_zones(prj)})
        for z in zs:
            for hemi in ('South', 'North'):
                for n in ns:
                    yield {'ell': ell, 'prj': prj, 'zone': z, 'hemi': hemi, 'north': n,
                           'easts': [round(fe + x, 4) for x in xs if -2830000 <= fe + x <= 3830000]}


def ev_grid(case, rec):
    ell, prj = cfg.ell_obj(case['ell']), PRJS[case['prj']]
    a, invf = ELL_AF[case['ell']]
    fe, fn, k0, zw, icm = PRJ_PAR[case['prj']]
    z, hemi, north = case['zone'], case['hemi'], case['north']
    cm = cm_of(case['prj'], z)
    easts = np.array(case['easts'], dtype=float)
    south = hemi == 'South'
    yn = (north - fn) if south else north      # signed northing from the equator as the API defines it
    if not south:
        pass
    olat, odl, ok_, og = oracle_tm.inverse_np(np.full(len(easts), yn if south else north), easts - fe, a, invf, k0)
    for j, east in enumerate(case['easts']):
        one = dict(case, easts=[east])
        la, dl = float(olat[j]), float(odl[j])
        lon = cm + dl
        if not (la == la) or not (-80 + 1e-6 <= la <= 84 - 1e-6) or abs(dl) > 30 or not (-180 + 1e-6 <= lon <= 180 - 1e-6):
            rec.skip('grid point outside the domain (band / 30 deg / longitude range) per the oracle')
            continue
        if (south and la > 0) or (not south and la < 0):
            rec.skip('northing on the wrong side of the equator for this hemisphere')
            continue
        st, r = rec.call(grid2geo, z, east, north, hemi, ell, prj)
        co = {'ell': case['ell'], 'prj': case['prj'], 'zone': z, 'hemi': hemi, 'east': east, 'north': north,
              'lat': la, 'abs_lat': abs(la)}
        if st != 'ok':
            rec.fail('grid2geo raised on a valid grid coordinate', site='convert:grid2geo', observed=r, case=one, coords=co)
            continue
        lat2, lon2 = r[0], r[1]
        rec.nontriv((case['ell'], case['prj'], z, hemi, east, north))
        rec.state((case['ell'], case['prj'], z, float(lat2).hex(), float(lon2).hex()))
        rec.dev('vs_oracle_inverse_lat_deg', abs(lat2 - la), one)
        # every legal spelling of the hemisphere gives the same answer
        if j % 4 == 0:
            for sp in (hemi.lower(), hemi.upper()):
                st_, r_ = rec.call(grid2geo, z, east, north, sp, ell, prj)
                if st_ != 'ok' or tuple(r_) != tuple(r):
                    rec.fail('hemisphere spelling %r gives a different result from %r' % (sp, hemi), site='convert:grid2geo:hemisphere-spelling',
                             observed=r_, expected=list(r), case=one, coords=dict(co, spelling=sp))
        # every numeric spelling of the same easting / northing / zone gives the same answer
        if j % 4 == 1 and east == int(east) and north == int(north):
            fz = dict(cfg.exact_forms(z))
            for (nm, ef), (nm2, nf) in zip(cfg.exact_forms(east), cfg.exact_forms(north)):
                for args in ((z, ef, north), (z, east, nf), (fz.get(nm, z), ef, nf)):
                    st_, r_ = rec.call(grid2geo, args[0], args[1], args[2], hemi, ell, prj)
                    if st_ != 'ok' or tuple(float(v) for v in r_) != tuple(r):
                        rec.fail('numeric form %s of the same grid coordinate gives a different result' % nm,
                                 site='convert:grid2geo:numeric-form', observed=r_ if st_ != 'ok' else [float(v) for v in r_],
                                 expected=list(r), case=one, coords=dict(co, form=nm))
                        break
            rec.outcome('forms')
        st, r3 = rec.call(geo2grid, lat2, lon2, z, ell, prj)
        if st != 'ok':
            rec.fail('geo2grid raised on a position returned by grid2geo', site='convert:geo2grid', observed=r3,
                     case=one, coords=co)
            continue
        de, dn = grid_diff(r3, hemi, east, north, lat2, fn)
        rec.dev('regrid_m', max(de, dn), one)
        if de > TOL_M or dn > TOL_M or de != de:
            rec.fail('grid->geo->grid does not return the same easting/northing within 0.2 mm',
                     site='convert:roundtrip:grid', observed=[r3[0], r3[2], r3[3]], expected=[hemi, east, north],
                     tol=TOL_M, case=one, coords=co)
            rec.outcome('bad')
        else:
            rec.outcome('ok-' + hemi)
        # mirror pair
        if not south and fn > 0 and 0 <= fn - north <= 10000000:
            st, rm = rec.call(grid2geo, z, east, fn - north, 'South', ell, prj)
            if st != 'ok':
                rec.fail('grid2geo raised on the southern mirror image of a valid northern grid coordinate',
                         site='convert:grid2geo:mirror', observed=rm, case=one, coords=co)
                continue
            # fn - north is exact for these lattices unless rounding occurs; allow for the subtraction's rounding
            slack = 2e-11 + abs((fn - north) + north - fn) / 1e5
            if abs(rm[0] + lat2) > slack or abs(rm[1] - lon2) > slack:
                rec.fail('mirror-image grid coordinates do not give opposite latitudes and identical longitudes',
                         site='convert:grid2geo:mirror', observed=[rm[0], rm[1]], expected=[-lat2, lon2], tol=slack,
                         case=one, coords=co)
            rec.outcome('mirror')
    rec.sample({'case': dict(case, easts=case['easts'][:3])})


# ------------------------------------------------------------------------------------------
_SA = {}


def standalone():
    if 'm' not in _SA:
        path = os.path.join(REPO, 'Standalone', 'mga2gda.py')
        spec = importlib.util.spec_from_file_location('gpmc_mga2gda', path)
        m = importlib.util.module_from_spec(spec)
        spec.loader.exec_module(m)
        _SA['m'] = m
    return _SA['m']


def gen_sa(tier, seed):
    # the MGA domain proper (zones 46..59 and a structural set), eastings within the 6-degree zone +- overlap
    zones = [1, 30, 46, 47, 48, 49, 50, 51, 52, 53, 54, 55, 56, 57, 58, 59, 60]
    es = uniq([1e5, 2e5, 3e5, 4e5, 499999.9999, 5e5, 500000.0001, 6e5, 7e5, 8e5, 9e5] +
              fill(1e5, 9e5, 1e5 if tier == 'quick' else 2.5e4, seed, 7))
    ns = uniq([1.2e6, 2e6, 5e6, 9e6, 1e7 - 1e-4, 1e7] + fill(1.2e6, 1e7, 4e5 if tier == 'quick' else 1e5, seed, 8))
    for z in zones:
        for n in ns:
            yield {'zone': z, 'north': n, 'easts': es, 'mode': 'func'}
    # batch path: csv file in, csv file out
    yield {'zone': 55, 'north': 6.2e6, 'easts': es, 'mode': 'csv'}
    yield {'zone': 50, 'north': 1e7 - 1e-4, 'easts': es, 'mode': 'csv'}
    # latitudes and longitudes strictly between -1 and 0 degrees (the degree field of the HP output is '-0')
    yield {'zone': 52, 'north': 9.95e6, 'easts': es, 'mode': 'csv'}
    yield {'zone': 30, 'north': 6.2e6, 'easts': [7.4e5, 7.8e5, 8.2e5, 8.305e5], 'mode': 'csv'}
    yield {'zone': 30, 'north': 9.99e6, 'easts': [7.4e5, 8.0e5, 8.33e5], 'mode': 'csv'}
    yield {'zone': 55, 'north': 6251064.8483, 'easts': [3e5, 444444.4444, 612345.6789], 'mode': 'csv', 'noeol': True, 'eol': 'lf'}
    yield {'zone': 51, 'north': 7000000.001, 'easts': [3e5, 444444.4444, 612345.6789], 'mode': 'csv', 'noeol': True, 'eol': 'crlf'}
    yield {'zone': 56, 'north': 6000001.0, 'easts': [5e5], 'mode': 'csv', 'noeol': True, 'eol': 'lf'}
    # point names are labels, not keys: repeated and blank names (re-observed marks, numbering restarted) keep their own rows
    yield {'zone': 54, 'north': 6543210.123, 'easts': [2e5, 3e5, 4e5, 5e5, 6e5, 7e5, 8e5], 'mode': 'csv', 'dupids': True}
    yield {'zone': 55, 'north': 6.2e6, 'easts': es, 'mode': 'csv', 'spell': 1}
    yield {'zone': 50, 'north': 5813614.161, 'easts': [321405.559, 444444.4444, 5e5, 612345.678, 7e5, 100000.5, 2e5, 3e5], 'mode': 'csv', 'spell': 1}
    # what an EARLIER run left in the directory: the same job name converted again after the input was replaced by another file
    # (moved / extracted / checked out over it, so possibly carrying an OLDER time stamp than the previous output), by a shorter one,
    # by an identical one
    for how in ('older-mtime', 'shorter', 'same-name-newer', 'output-readonly-then-removed'):
        yield {'zone': 55, 'north': 6251064.8483, 'easts': [3e5, 444444.4444, 612345.6789, 7.1e5, 2.2e5], 'mode': 'csv', 'rerun': how}
    # the AMOUNT of input: files larger than the usual buffer sizes (8 KiB, 64 KiB, 1 MiB; thorough: 4 MiB) - every row comes out
    for nrows in ([250, 2000, 30000] if tier == 'quick' else [250, 2000, 30000, 110000]):
        yield {'zone': 55, 'north': 6251064.8483, 'easts': [], 'nrows': nrows, 'mode': 'csv', 'longnames': True}


def hp_to_dec(hp):
    """independent HP reader (13-decimal string, exact rationals)"""
    s = '%.13f' % abs(hp)
    ip, fp = s.split('.')
    val = F(int(ip)) + F(int(fp[:2]), 60) + F(int(fp[2:4] + fp[4:]), 3600 * 10 ** (len(fp) - 4))
    return float(val) if hp >= 0 else -float(val)


def ev_sa(case, rec):
    m = standalone()
    z, north = case['zone'], case['north']
    if case['mode'] == 'csv':
        if case.get('nrows'):
            case = dict(case, easts=[round(2.0e5 + (i * 1337.7331) % 6.0e5, 4) for i in range(case['nrows'])])
        d = os.path.join(SCRATCH, 'c02_sa_%d' % os.getpid())
        os.makedirs(d, exist_ok=True)
        fn_in = os.path.join(d, 'pts.csv')
        eol = {'lf': '\n', 'crlf': '\r\n'}[case.get('eol', 'crlf' if case.get('spell') else 'lf')]
        with open(fn_in, 'w', newline='') as f:
            w = csv.writer(f, lineterminator=eol)
            for i, e in enumerate(case['easts']):
                # the same numbers in every spelling float() reads: plain, exponent, explicit sign, blanks around
                sp = case.get('spell', 0) and (i % 4)
                fmt = [repr, lambda v: '%.17e' % v, lambda v: '+' + repr(v), lambda v: ' %r ' % v][sp]
                pid = 'P%d' % i if not case.get('dupids') else ['RM1', 'RM1', '', '', 'P7', 'RM1'][i % 6]
                if case.get('longnames'):
                    pid = 'PERMANENT-MARK-%08d' % i
                w.writerow([pid, z if sp != 1 else '%.1e' % z if z % 10 == 0 else '%.2E' % z, fmt(e), fmt(north)])
        if case.get('noeol'):
            # the last line of the file without a line terminator (as most editors and many exporters leave it)
            raw = open(fn_in, 'rb').read()
            open(fn_in, 'wb').write(raw[:-len(eol)])
        if case.get('rerun'):
            # previous job under the same name: other points (zone 50, other eastings), more of them
            how = case['rerun']
            prev = os.path.join(d, 'prev.csv')
            os.replace(fn_in, os.path.join(d, 'new.csv'))
            with open(prev, 'w', newline='') as f:
                w = csv.writer(f, lineterminator=eol)
                for i in range(9):
                    w.writerow(['OLD%d' % i, 50, repr(2.5e5 + 5.0e4 * i), repr(7.0e6 + 1000.0 * i)])
            os.replace(prev, fn_in)
            rec.call(m.grid2geoio, fn_in)
            if how == 'older-mtime':
                os.utime(os.path.join(d, 'new.csv'), (1.0e9, 1.0e9))
            os.replace(os.path.join(d, 'new.csv'), fn_in)
            if how == 'same-name-newer':
                os.utime(fn_in, (time.time() + 5, time.time() + 5))
            if how == 'output-readonly-then-removed':
                os.remove(os.path.join(d, 'pts_out.csv'))
        st, msg = rec.call(m.grid2geoio, fn_in)
        if st != 'ok':
            rec.fail('batch converter raised on a well-formed csv', site='Standalone:grid2geoio', observed=msg)
            return
        rows = list(csv.reader(open(os.path.join(d, 'pts_out.csv'))))
        for fnm in os.listdir(d):
            os.remove(os.path.join(d, fnm))
        os.rmdir(d)
        if len(rows) != len(case['easts']):
            rec.fail('batch converter wrote %d rows for %d inputs' % (len(rows), len(case['easts'])),
                     site='Standalone:grid2geoio', case=dict(case, easts=case['easts'][:2]), coords={'rows_in': len(case['easts']), 'rows_out': len(rows)})
            return
        step = max(1, len(rows) // 1500)
        for i, (e, row) in enumerate(zip(case['easts'], rows)):
            if case.get('longnames') and row[0] != 'PERMANENT-MARK-%08d' % i:
                rec.fail('row %d of the output does not carry the name of row %d of the input' % (i, i), site='Standalone:grid2geoio', observed=row[0],
                         case=dict(case, easts=[e]))
                return
            if i % step and i < len(rows) - 3:
                continue
            lat_l, lon_l = grid2geo(z, e, north)[:2]
            rec.transition()
            la, lo = hp_to_dec(float(row[1])), hp_to_dec(float(row[2]))
            rec.nontriv(('csv', z, e, north))
            dv = max(abs(la - lat_l), abs(lo - lon_l))
            rec.dev('csv_deg', dv, dict(case, easts=[e]))
            if dv > 1e-10 + 3e-13:
                rec.fail('batch converter output differs from the library by more than 1e-10 deg',
                         site='Standalone:grid2geoio', observed=[row[1], row[2]], expected=[lat_l, lon_l], tol=1e-10,
                         case=dict(case, easts=[e]))
        rec.outcome('csv-ok')
        return
    for e in case['easts']:
        one = dict(case, easts=[e])
        st, r = rec.call(m.grid2geo, z, e, north)
        st2, rl = rec.call(grid2geo, z, e, north)
        if st2 != 'ok':
            rec.skip('library rejects the coordinate')
            continue
        if st != 'ok':
            rec.fail('stand-alone converter raised where the library answers', site='Standalone:grid2geo', observed=r, case=one)
            continue
        rec.nontriv(('func', z, e, north))
        rec.state(('sa', float(r[0]).hex(), float(r[1]).hex()))
        dv = max(abs(r[0] - rl[0]), abs(r[1] - rl[1]))
        rec.dev('func_deg', dv, one)
        if dv > 1e-10 or dv != dv:
            rec.fail('stand-alone converter differs from the library by more than 1e-10 deg', site='Standalone:grid2geo',
                     observed=list(r), expected=[rl[0], rl[1]], tol=1e-10, case=one,
                     coords={'zone': z, 'east': e, 'north': north, 'lat': rl[0]})
            rec.outcome('bad')
        else:
            rec.outcome('ok')
    rec.sample({'case': dict(case, easts=case['easts'][:3])})


# --- two threads un-projecting DIFFERENT grid coordinates on DIFFERENT ellipsoids / projections at the same time ------
from gpmc import threads as _thr
import numpy as _tnp
import geodepy.constants as _tgc
import geodepy.convert as _tgv
import geodepy.geodesy as _tgg
import geodepy.angles as _tga
T_CALLS = {
    'utm_grs80': lambda: (lambda: _tgv.grid2geo(53, 386352.3979, 7381850.7689)),
    'isg_ans': lambda: (lambda: _tgv.grid2geo(561, 318743.2, 1291327.7, 'south', _tgc.ans, _tgc.isg)),
    'utm_intl_north': lambda: (lambda: _tgv.grid2geo(18, 612345.678, 4321098.765, 'North', _tgc.intl24)),
    'user_prj': lambda: (lambda p=_tgc.Projection(200000, 4000000, 0.9999, 4, -178): _tgv.grid2geo(12, 250000.0, 1300000.0, 'north', _tgc.wgs84, p)),
    'roundtrip': lambda: (lambda: _tgv.geo2grid(*_tgv.grid2geo(55, 300000.0, 6200000.0)[:2])),
}
_tg, _te = _thr.make(T_CALLS, ['geodepy/convert.py'], 'convert:grid2geo:threads', quick=['utm_grs80', 'isg_ans', 'user_prj'],
                     triple=('utm_grs80', 'isg_ans', 'roundtrip'), files_thorough=['geodepy/constants.py'], parts=4)


from gpmc import callforms as _cf


from gpmc import interp as _ip


from gpmc import manyobj as _mo
SUBCHECKS = [
    Sub('geo_roundtrip', gen_geo, ev_geo, chunk=16, floor=1000, envs=24),
    Sub('grid_lattice', gen_grid, ev_grid, chunk=8, floor=1000, envs=24),
    Sub('standalone', gen_sa, ev_sa, chunk=8, floor=500, envs=1),
    Sub('threads', _tg, _te, chunk=1, floor=3, poison=False, fresh=True, timeout=7200),
    Sub('many_objects', *_mo.make('C02', 'convert'), chunk=1, floor=3, poison=False, fresh=True, timeout=7200), Sub('callforms', *_cf.make('C02', 'convert'), chunk=1, floor=1, guard=True),
    Sub('interpreter', *_ip.make('C02', 'convert'), chunk=1, floor=5, poison=False),
]


def bounds(tier, seed):
    return {'configs': cfg.TM_CONFIGS, 'depth': 3, 'x_offsets': X_OFF, 'n_abs': N_ABS,
            'tolerances': {'grid_m': TOL_M, 'geo_deg': TOL_DEG, 'mirror_deg': 2e-11, 'standalone_deg': 1e-10}}
