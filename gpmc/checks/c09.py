"""C09 — library calls are pure: no hidden state, no mutation of constants or arguments, repeatable, thread-safe.

Alphabet: ~50 representative public calls with fixed valid arguments (every module; both directions of every
transformation; with and without covariance; -t and t + date for sets carrying uncertainties; caller-owned lists
and numpy arrays; coordinate objects).

  seq       : history exploration.  Every ordered sequence of calls up to depth 2 (quick) / 3 (thorough) is executed
              in a forked copy of the pristine interpreter; on every transition: write-barrier log empty, snapshot of
              all Ellipsoid/Projection/Transformation/TransformationSD constants unchanged, every mutable argument
              deep-equal to its pre-call copy, result bit-identical to the reference (the same call executed first in a
              pristine interpreter).  The snapshot of all other module-level data is observed: if the set of reachable
              library states closes (one state on a pure tree) the verdict extends to histories of any length.
  sched     : schedule exploration.  Two real threads, each executing one call of the shared-object seam, all
              interleavings with at most 1 preemption (2 on the structural pairs; 3 threads and opcode granularity in thorough) under a
              deterministic scheduler; every execution is checked like a sequential one against the reference results.
"""
import datetime
import math
import os
import sys

import numpy as np

from gpmc import snapshot as snp, sched
from gpmc.core import Sub, HarnessError, REPO

import geodepy.constants as gc
import geodepy.angles as ga
import geodepy.convert as gv
import geodepy.geodesy as gg
import geodepy.statistics as gs
import geodepy.survey as gsv
import geodepy.transform as gt
import geodepy.coord as gco
import geodepy.ntv2reader as gnt

PROPERTY = 'C09'
ASSUMPTIONS = [
    'a forked copy of the just-imported interpreter is a pristine interpreter (fork happens before any library call)',
    'scheduling points are line events in the traced library modules (transform, constants, coord, statistics + any '
    'module in which the sequential pass observed a change of module-level data); reads of never-written objects commute',
    'the thread claim is decided for 2 threads (3 in thorough) and <= 2 preemptions; calls whose complete sequential '
    'exploration performed no shared write commute with every other call (reduction argument, DESIGN.md §5/C09)',
]

BAR = snp.Barrier()
BAR.install()
PRISTINE_CONST = snp.snap_constants()
PRISTINE_MODS = snp.snap_modules()
PRISTINE_PROC = None       # taken at the first use (after the harness has finished configuring the process)

X, Y, Z = -4052051.7643, 4212836.2017, -2545106.0245
V33 = [[1e-4, 2e-5, -1e-5], [2e-5, 4e-4, 3e-5], [-1e-5, 3e-5, 9e-4]]
V31 = [[1e-4], [2e-4], [3e-4]]
D30 = datetime.date(2030, 1, 1)
D85 = datetime.date(1985, 7, 1)


E_ALIAS = gc.Ellipsoid(6378137, 275.0)      # same semi-major axis as GRS80, different flattening


def A(x):
    return np.array(x, dtype=float)


def _iadd(t, d):
    t += d
    return t


def _isub(a, b):
    a -= b
    return a


def _imul(a, k):
    a *= k
    return a


# name -> (function returning (callable, args list))   args are rebuilt for every execution
ALPHABET = {
    'geo2grid': lambda: (gv.geo2grid, [-33.5, 151.2]),
    'geo2grid_isg': lambda: (gv.geo2grid, [-33.5, 151.2, 0, gc.ans, gc.isg]),
    'geo2grid_obj': lambda: (gv.geo2grid, [ga.DMSAngle(-23, 40, 12.5), ga.DDMAngle(133, 53.1)]),
    'grid2geo': lambda: (gv.grid2geo, [53, 386352.3979, 7381850.7689]),
    'grid2geo_isg': lambda: (gv.grid2geo, [561, 318743.2, 1291327.7, 'south', gc.ans, gc.isg]),
    'llh2xyz': lambda: (gv.llh2xyz, [-37.8, 144.97, 39.65]),
    'llh2xyz_intl': lambda: (gv.llh2xyz, [0.0, 10.0, 0.0, gc.intl24]),
    'xyz2llh': lambda: (gv.xyz2llh, [X, Y, Z]),
    'xyz2llh_ans': lambda: (gv.xyz2llh, [X, Y, Z, gc.ans]),
    'rect2polar': lambda: (gv.rect2polar, [-3.0, 4.0]),
    'date_to_yyyydoy': lambda: (gv.date_to_yyyydoy, [datetime.date(2020, 10, 12)]),
    'dec2hp': lambda: (ga.dec2hp, [-33.99999999999]),
    'hp2dec': lambda: (ga.hp2dec, [121.5959999]),
    'hp2dec_v': lambda: (ga.hp2dec_v, [A([2.01, -0.3, 123.44555])]),
    'dec2hp_v': lambda: (ga.dec2hp_v, [A([2.0166666666666666, -0.5, 123.74875])]),
    'angle_arith': lambda: ((lambda a, b: (a + b, a - b, -a, a * 2.5)), [ga.DMSAngle(-0, 30, 15.25), ga.HPAngle(12.3045)]),
    'vincdir': lambda: (gg.vincdir, [-37.95103342, 144.42486789, 306.86815920, 54972.271]),
    'vincinv': lambda: (gg.vincinv, [-37.95103342, 144.42486789, -37.65282114, 143.92649553]),
    'vincinv_ans': lambda: (gg.vincinv, [10.0, 179.5, -12.0, -179.5, gc.ans]),
    'vincdir_utm': lambda: (gg.vincdir_utm, [55, 273741.2966, 5796489.7769, 305.17017, 54992.279]),
    'vincinv_utm': lambda: (gg.vincinv_utm, [55, 273741.2966, 5796489.7769, 54, 758173.7973, 5828674.3402]),
    'line_sf': lambda: (gg.line_sf, [55, 273741.2966, 5796489.7769, 55, 228854.0513, 5828259.0384]),
    'enu2xyz': lambda: (gg.enu2xyz, [-23.67, 133.88, 1.0, -2.0, 3.0]),
    'xyz2enu': lambda: (gg.xyz2enu, [-23.67, 133.88, 1.0, -2.0, 3.0]),
    'rotation_matrix': lambda: (gs.rotation_matrix, [-23.67, 133.88]),
    'vcv_cart2local': lambda: (gs.vcv_cart2local, [A(V33), -23.67, 133.88]),
    'vcv_local2cart31': lambda: (gs.vcv_local2cart, [A(V31), -23.67, 133.88]),
    'error_ellipse': lambda: (gs.error_ellipse, [A(V33)]),
    'relative_error': lambda: (gs.relative_error, [-23.67, 133.88, A(V33), A(V33) * 2, A(V33) * 0.3]),
    'k_val95': lambda: (gs.k_val95, [7]),
    'first_vel_params': lambda: (gsv.first_vel_params, [0.850, 14985259, None, 10.0]),
    'first_vel_corrn': lambda: (gsv.first_vel_corrn, [1117.8517, (281.781, 79.393), 6.8, 938.5, 58.0]),
    'first_vel_corrn_co2': lambda: (gsv.first_vel_corrn, [1117.8517, (281.781, 79.393), 6.8, 938.5, 58.0, None, 420.0, 0.850]),
    'precise_inst_ht': lambda: (gsv.precise_inst_ht, [[89.0, 92.0, 90.0, 91.0], 0.5, 0.1]),
    'va_conv': lambda: (gsv.va_conv, [84.9, 21.5, 1.6, 1.4]),
    'radiations': lambda: (gsv.radiations, [500000.0, 6000000.0, 45.5, 120.0, 0.2, 0.9996]),
    'joins': lambda: (gsv.joins, [500000.0, 6000000.0, 500100.0, 5999900.0]),
    'conform7': lambda: (gt.conform7, [X, Y, Z, gc.gda94_to_gda2020]),
    'conform7_vcv': lambda: (gt.conform7, [X, Y, Z, gc.gda94_to_gda2020, A(V33)]),
    'conform7_rev_vcv': lambda: (gt.conform7, [X, Y, Z, gc.gda2020_to_gda94, A(V33)]),
    'conform14_apm_vcv': lambda: (gt.conform14, [X, Y, Z, D30, gc.itrf2014_to_gda2020, A(V33)]),
    'conform14_apm_rev': lambda: (gt.conform14, [X, Y, Z, D85, gc.gda2020_to_itrf2014, A(V33)]),
    'conform14_itrf08_vcv': lambda: (gt.conform14, [X, Y, Z, D30, gc.itrf2008_to_gda94, A(V33)]),
    'conform14_itrf08_rev': lambda: (gt.conform14, [X, Y, Z, D85, gc.gda94_to_itrf2008, A(V33)]),
    'conform14_itrf': lambda: (gt.conform14, [X, Y, Z, D30, gc.itrf2014_to_itrf2008]),
    'neg_t': lambda: ((lambda t: -t), [gc.itrf2005_to_gda94]),
    'add_date': lambda: ((lambda t, d: t + d), [gc.itrf2005_to_gda94, D30]),
    'add_date_apm': lambda: ((lambda t, d: t + d), [gc.atrf2014_to_gda2020, D85]),
    'mga94_to_mga2020_vcv': lambda: (gt.transform_mga94_to_mga2020, [53, 386352.3979, 7381850.7689, 603.3466, A(V33)]),
    'mga2020_to_mga94': lambda: (gt.transform_mga2020_to_mga94, [53, 386353.2343, 7381852.2986, 603.2489]),
    'atrf2014_to_gda2020_vcv': lambda: (gt.transform_atrf2014_to_gda2020, [X, Y, Z, D30, A(V33)]),
    'gda2020_to_atrf2014_vcv': lambda: (gt.transform_gda2020_to_atrf2014, [X, Y, Z, D85, A(V33)]),
    'coord_geo_tm_cart': lambda: ((lambda c: (c.tm(), c.cart(), c.notation(ga.DMSAngle))),
                                  [gco.CoordGeo(ga.DECAngle(-23.67), ga.DECAngle(133.88), 603.2, 588.1)]),
    'coord_cart_geo': lambda: ((lambda c: c.geo()), [gco.CoordCart(X, Y, Z, 12.5)]),
    # --- aliasing twins: same coordinates / labels / epochs as another call of the alphabet but a different ellipsoid,
    # projection or parameter set (a memo keyed too coarsely answers them with the other call's value)
    'geo2grid_ans': lambda: (gv.geo2grid, [-33.5, 151.2, 0, gc.ans]),
    'geo2grid_e635': lambda: (gv.geo2grid, [-33.5, 151.2, 0, E_ALIAS]),
    'grid2geo_ans': lambda: (gv.grid2geo, [53, 386352.3979, 7381850.7689, 'south', gc.ans]),
    'grid2geo_e635': lambda: (gv.grid2geo, [53, 386352.3979, 7381850.7689, 'south', E_ALIAS]),
    'llh2xyz_ans': lambda: (gv.llh2xyz, [-37.8, 144.97, 39.65, gc.ans]),
    'xyz2llh_e635': lambda: (gv.xyz2llh, [X, Y, Z, E_ALIAS]),
    'vincinv_alias': lambda: (gg.vincinv, [-37.95103342, 144.42486789, -37.65282114, 143.92649553, gc.intl24]),
    'vincdir_alias': lambda: (gg.vincdir, [-37.95103342, 144.42486789, 306.86815920, 54972.271, gc.intl24]),
    'conform14_i2020_14': lambda: (gt.conform14, [X, Y, Z, D30, gc.itrf2020_to_itrf2014]),
    'conform14_i2020_14_vel': lambda: (gt.conform14, [X, Y, Z, D30, gc.itrf2020_to_itrf2014_vel]),
    'conform14_user_alias': lambda: (gt.conform14, [X, Y, Z, D30, gc.Transformation(
        'ITRF2014', 'GDA2020', datetime.date(2020, 1, 1), 0.01, -0.02, 0.03, 0.004, 0.001, -0.002, 0.003,
        0.001, 0.002, -0.003, 0.0001, 0.0005, -0.0004, 0.0003)]),
    'conform7_user_alias': lambda: (gt.conform7, [X, Y, Z, gc.Transformation('GDA94', 'GDA2020', 0, 1.0, -2.0, 3.0, 0.5, 0.1, -0.2, 0.3)]),
    # --- caller-owned arrays in unusual but legal storage (upper-triangular, not exactly symmetric, non-contiguous)
    'conform7_vcv_upper': lambda: (gt.conform7, [X, Y, Z, gc.gda94_to_gda2020, A([[1e-4, 2e-5, -1e-5], [0.0, 4e-4, 3e-5], [0.0, 0.0, 9e-4]])]),
    'conform14_vcv_asym': lambda: (gt.conform14, [X, Y, Z, D30, gc.itrf2008_to_gda94,
                                                  A([[1e-4, 2e-5, -1e-5], [2.0000000000000003e-5, 4e-4, 3e-5], [-1e-5, 3.0000000000000004e-5, 9e-4]])]),
    'vcv_cart2local_view': lambda: (gs.vcv_cart2local, [np.asfortranarray(A(V33)), -33.5, 151.2]),
    'vcv_cart2local_p2': lambda: (gs.vcv_cart2local, [A(V33), -33.5, 151.2]),
    'mga2020_to_mga94_vcv_p2': lambda: (gt.transform_mga2020_to_mga94, [55, 300000.0, 6200000.0, 10.0, A(V31)]),
    # --- objects DERIVED from constants passed on to further calls (a re-epoched / negated set owns its own uncertainties:
    # using it must not change it, and the constant it came from must stay untouched)
    'conform14_derived': lambda: (gt.conform14, [X, Y, Z, D85, gc.itrf2008_to_gda94 + D30, A(V33)]),
    'conform14_derived_neg': lambda: (gt.conform14, [X, Y, Z, D85, -(gc.itrf2005_to_gda94 + D30), A(V33)]),
    'conform7_derived': lambda: (gt.conform7, [X, Y, Z, gc.atrf2014_to_gda2020 + D85, A(V33)]),
    'add_date_derived': lambda: ((lambda t, d: t + d), [gc.itrf2008_to_gda94 + D30, D85]),
    'derived_chain': lambda: ((lambda t, d1, d2, v: (lambda t1: (gt.conform14(X, Y, Z, d2, t1, v), gt.conform14(X, Y, Z, d2, -t1, v),
                                                             gt.conform7(X, Y, Z, t1, v), gt.conform14(X, Y, Z, d2, t1, v)))(t + d1)),
                              [gc.itrf2000_to_gda94, D30, D85, A(V33)]),
    'precise_inst_ht_sorted': lambda: (gsv.precise_inst_ht, [[92.0, 91.0, 90.0, 89.0], 0.5, 0.1]),
    # --- hash twins: CPython hashes -1 and -2 to the same value, so a memo keyed on hash(arguments) answers one with the other
    'rotation_matrix_m1': lambda: (gs.rotation_matrix, [-1.0, 133.88]),
    'rotation_matrix_m2': lambda: (gs.rotation_matrix, [-2.0, 133.88]),
    'rotation_matrix_lm1': lambda: (gs.rotation_matrix, [-23.67, -1]),
    'rotation_matrix_lm2': lambda: (gs.rotation_matrix, [-23.67, -2]),
    'geo2grid_m1': lambda: (gv.geo2grid, [-1, 151.2]),
    'geo2grid_m2': lambda: (gv.geo2grid, [-2, 151.2]),
    'llh2xyz_m1': lambda: (gv.llh2xyz, [-37.8, 144.97, -1.0]),
    'llh2xyz_m2': lambda: (gv.llh2xyz, [-37.8, 144.97, -2.0]),
    'vincinv_m1': lambda: (gg.vincinv, [-1.0, 144.42486789, -37.65282114, 143.92649553]),
    'vincinv_m2': lambda: (gg.vincinv, [-2.0, 144.42486789, -37.65282114, 143.92649553]),
    'vincdir_m1': lambda: (gg.vincdir, [-1, 144.42486789, 306.86815920, 54972.271]),
    'vincdir_m2': lambda: (gg.vincdir, [-2, 144.42486789, 306.86815920, 54972.271]),
    'group_refractivity_m1': lambda: (gsv.group_refractivity, [0.85, -1.0, 1013.25, 10.0]),
    'group_refractivity_m2': lambda: (gsv.group_refractivity, [0.85, -2.0, 1013.25, 10.0]),
    'phase_refractivity_m1': lambda: (gsv.phase_refractivity, [0.85, -1, 1013.25, 10.0]),
    'phase_refractivity_m2': lambda: (gsv.phase_refractivity, [0.85, -2, 1013.25, 10.0]),
    'dec2hp_m1': lambda: (ga.dec2hp, [-1.0]),
    'dec2hp_m2': lambda: (ga.dec2hp, [-2.0]),
    'xyz2enu_m1': lambda: (gg.xyz2enu, [-1.0, 133.88, 1.0, -2.0, 3.0]),
    'xyz2enu_m2': lambda: (gg.xyz2enu, [-2.0, 133.88, 1.0, -2.0, 3.0]),
    'conform7_m1': lambda: (gt.conform7, [-1.0, Y, Z, gc.gda94_to_gda2020]),
    'conform7_m2': lambda: (gt.conform7, [-2.0, Y, Z, gc.gda94_to_gda2020]),
    # --- augmented assignment on a shipped constant: `t += date` must rebind the caller's name, not rewrite the constant
    'iadd_date': lambda: (_iadd, [gc.itrf2014_to_itrf2008, D30]),
    'iadd_date_sd': lambda: (_iadd, [gc.itrf2008_to_gda94, D85]),
    'isub_angle': lambda: (_isub, [ga.DMSAngle(12, 30, 15.5), ga.DECAngle(2.25)]),
    'imul_angle': lambda: (_imul, [ga.HPAngle(12.3015), 2]),
    # --- caller-owned float64 arrays as parameter / observation containers
    'first_vel_corrn_arr': lambda: (gsv.first_vel_corrn, [1117.8517, A([281.781, 79.393]), 6.8, 938.5, 58.0]),
    'first_vel_corrn_arr_co2': lambda: (gsv.first_vel_corrn, [1117.8517, A([281.781, 79.393]), 6.8, 938.5, 58.0, None, 420.0, 0.850]),
    'precise_inst_ht_arr': lambda: (gsv.precise_inst_ht, [A([89.0, 92.0, 90.0, 91.0]), 0.5, 0.1]),
    'conform7_vcv_p2': lambda: (gt.conform7, [-2389025.0, 5043317.0, -3078531.0, gc.gda94_to_gda2020, A(V33) * 7.0 + np.eye(3) * 1e-3]),
    # --- calls that are REJECTED (the reference result is the exception): what a failed call leaves behind is history too
    'raises_mga2020_zone61': lambda: (gt.transform_mga2020_to_mga94, [61, 500000.0, 6000000.0]),
    'raises_mga2020_vcv22': lambda: (gt.transform_mga2020_to_mga94, [55, 500000.0, 6000000.0, 10.0, np.eye(2)]),
    'raises_mga94_vcv22': lambda: (gt.transform_mga94_to_mga2020, [55, 500000.0, 6000000.0, 10.0, np.eye(2)]),
    'raises_gda2020_atrf_baddate': lambda: (gt.transform_gda2020_to_atrf2014, [X, Y, Z, 'not a date']),
    'raises_conform14_baddate': lambda: (gt.conform14, [X, Y, Z, None, gc.itrf2014_to_gda2020, A(V33)]),
    'raises_conform7_rot': lambda: (gt.conform7, [X, Y, Z, gc.Transformation('A', 'B', 0, 1, 2, 3, 4, 75.0, 0, 0), A(V33)]),
    'raises_geo2grid_band': lambda: (gv.geo2grid, [85.0, 10.0]),
    'raises_geo2grid_ell': lambda: (gv.geo2grid, [-33.5, 151.2, 0, 'not an ellipsoid']),
    'raises_grid2geo_ell': lambda: (gv.grid2geo, [55, 300000.0, 6200000.0, 'south', None]),
    'raises_vincinv_ell': lambda: (gg.vincinv, [-37.9, 144.4, -37.6, 143.9, 'not an ellipsoid']),
    'add_date_refepoch': lambda: ((lambda t, d: t + d), [gc.atrf2014_to_gda2020, datetime.date(2020, 1, 1)]),
    'add_date_refepoch_itrf': lambda: ((lambda t, d: t + d), [gc.itrf2008_to_gda94, gc.itrf2008_to_gda94.ref_epoch]),
    'raises_grid2geo_hemi': lambda: (gv.grid2geo, [56, 300000, 6200000, 'east']),
    'raises_hp2dec': lambda: (ga.hp2dec, [12.6]),
    'raises_vincinv_utm_zone': lambda: (gg.vincinv_utm, [55, 500000.0, 6000000.0, 99, 500000.0, 6000000.0]),
    'raises_vcv_shape': lambda: (gs.vcv_cart2local, [np.eye(2), -23.0, 133.0]),
    'raises_k_val95': lambda: (gs.k_val95, [2.5]),
    'mga2020_to_mga94_p3': lambda: (gt.transform_mga2020_to_mga94, [55, 300000.0, 6200000.0, 10.0]),
    'mga94_to_mga2020_p3': lambda: (gt.transform_mga94_to_mga2020, [55, 300000.0, 6200000.0, 10.0]),
    # --- what a call with non-finite coordinates leaves in recycled work memory; sets whose rotation uncertainties are zero
    'conform7_nan_vcv': lambda: (gt.conform7, [float('nan'), 1.0, float('inf'), gc.gda94_to_gda2020, A(V33)]),
    'conform7_apm_vcv': lambda: (gt.conform7, [X, Y, Z, gc.itrf2014_to_gda2020, A(V33)]),
    'conform14_apm_refepoch_vcv': lambda: (gt.conform14, [X, Y, Z, datetime.date(2020, 1, 1), gc.atrf2014_to_gda2020, A(V33)]),
    # --- calls that are DOCUMENTED to warn and still answer (ISG projection with another ellipsoid than ANS)
    'geo2grid_isg_grs80': lambda: (gv.geo2grid, [-33.5, 151.2, 0, gc.grs80, gc.isg]),
    'coord_tm_isg_geo': lambda: ((lambda c: c.geo()), [gco.CoordTM(561, 318743.2, 1291327.7, 10.0, 2.0, False, gc.isg)]),
    # --- array-valued observations (the formulas are elementwise; the arrays belong to the caller)
    'phase_refractivity_arr': lambda: (gsv.phase_refractivity, [0.85, A([20.0, 25.0]), A([1013.25, 990.0]), A([10.0, 12.0])]),
    'group_refractivity_arr': lambda: (gsv.group_refractivity, [0.85, A([20.0, 25.0]), A([1013.25, 990.0]), A([10.0, 12.0])]),
    'group_refractivity': lambda: (gsv.group_refractivity, [0.85, 20.0, 1013.25, 10.0, 450]),
    # --- valid but HARD inputs (slowly converging, nearly antipodal) and BATCHES of ordinary inputs: a convergence control that a hard
    # call relaxes and leaves behind only changes the last digit of some later results - a batch of 240 lines sees it
    'vincinv_near_antipodal': lambda: (gg.vincinv, [-30.0, 10.0, 30.2, -169.8]),
    'vincinv_near_antipodal2': lambda: (gg.vincinv, [0.5, 0.0, -0.3, 179.2, gc.ans]),
    'vincdir_far': lambda: (gg.vincdir, [-30.0, 10.0, 89.7, 19990000.0]),
    'batch_vincinv': lambda: (_batch, ['vincinv']),
    'batch_vincdir': lambda: (_batch, ['vincdir']),
    'batch_utm': lambda: (_batch, ['utm']),
    'batch_grid': lambda: (_batch, ['grid']),
}


def _batch(kind):
    out = []
    for i in range(240 if kind != 'utm' else 40):
        la1, lo1 = -44.0 + (i * 7.123456789) % 88.0, -170.0 + (i * 23.456789123) % 340.0
        la2, lo2 = la1 + ((i * 0.7548776662) % 1.0 - 0.5) * (0.3 if i % 3 else 40.0), lo1 + ((i * 0.5698402909) % 1.0 - 0.5) * (0.4 if i % 3 else 70.0)
        if kind == 'vincinv':
            out.append(gg.vincinv(la1, lo1, la2, lo2))
        elif kind == 'vincdir':
            out.append(gg.vincdir(la1, lo1, (i * 37.7) % 360.0, 10.0 ** (1 + (i % 60) / 10.0)))
        elif kind == 'utm':
            out.append(gg.vincinv_utm(55, 250000.0 + 9000.0 * i, 5800000.0 - 777.0 * i, 55, 640000.0 - 5000.0 * i, 5900000.0 + 3333.0 * i))
        else:
            g = gv.geo2grid(la1, lo1)
            out.append((g, gv.grid2geo(g[1], g[2], g[3], g[0])))
    return tuple(out)


NAMES = sorted(ALPHABET)

# --- objects that a caller shares between calls / threads (read-only sharing of input data is normal use): a call may not
# write into the object it is asked to convert, not even temporarily
SHARED = {
    'geo2d': lambda: gco.CoordGeo(ga.DECAngle(-23.67), ga.DECAngle(133.88), None, 588.1),
    'geo3d': lambda: gco.CoordGeo(ga.DMSAngle(-23, 40, 12.5), ga.DMSAngle(133, 52, 48.0), 603.2, 588.1),
    'cart': lambda: gco.CoordCart(X, Y, Z, 12.5),
    'tm': lambda: gco.CoordTM(53, 386352.3979, 7381850.7689, 603.3, None),
    'tderived': lambda: gc.itrf2008_to_gda94 + D30,
    'vcv': lambda: A(V33),
    'obs': lambda: [89.0, 92.0, 90.0, 91.0],
    'dms': lambda: ga.DMSAngle(-0, 30, 15.25),
    'parr': lambda: A([1013.25, 990.0]),
}
SHARED_CALLS = {
    'geo2d.cart': ('geo2d', lambda o: o.cart()),
    'geo2d.tm': ('geo2d', lambda o: o.tm()),
    'geo2d.notation': ('geo2d', lambda o: o.notation(ga.DMSAngle)),
    'geo3d.cart': ('geo3d', lambda o: o.cart()),
    'geo3d.tm': ('geo3d', lambda o: o.tm()),
    'geo3d.notation': ('geo3d', lambda o: o.notation(ga.HPAngle)),
    'cart.geo': ('cart', lambda o: o.geo()),
    'cart.tm': ('cart', lambda o: o.tm()),
    'tm.geo': ('tm', lambda o: o.geo()),
    'tm.cart': ('tm', lambda o: o.cart()),
    'tderived.c14': ('tderived', lambda t: gt.conform14(X, Y, Z, D85, t, A(V33))),
    'tderived.c7': ('tderived', lambda t: gt.conform7(X, Y, Z, t, A(V33))),
    'tderived.neg': ('tderived', lambda t: -t),
    'tderived.add': ('tderived', lambda t: t + D85),
    'vcv.c7': ('vcv', lambda v: gt.conform7(X, Y, Z, gc.gda94_to_gda2020, v)),
    'vcv.c14': ('vcv', lambda v: gt.conform14(X, Y, Z, D30, gc.itrf2008_to_gda94, v)),
    'vcv.cart2local': ('vcv', lambda v: gs.vcv_cart2local(v, -23.67, 133.88)),
    'vcv.ellipse': ('vcv', lambda v: gs.error_ellipse(v)),
    'obs.inst_ht': ('obs', lambda l: gsv.precise_inst_ht(l, 0.5, 0.1)),
    'dms.conv': ('dms', lambda a: (a.hp(), a.dec(), a.ddm(), -a, a + a, str(a))),
    'dms.geo2grid': ('dms', lambda a: gv.geo2grid(a, ga.DECAngle(133.88))),
    'parr.phase': ('parr', lambda p: gsv.phase_refractivity(0.85, A([20.0, 25.0]), p, A([10.0, 12.0]))),
    'parr.group': ('parr', lambda p: gsv.group_refractivity(0.85, A([20.0, 25.0]), p, A([10.0, 12.0]))),
}
_NTV2 = {}


def ntv2_path():
    """a two-level NTv2 file (parent + nested child, biquadratic fields) written once by the independent generator"""
    if 'p' not in _NTV2:
        from gpmc.checks import c17
        _NTV2['p'] = c17.materialise(c17.layout_by_id('nested-biquadratic'), 'c09')[0]
    return _NTV2['p']


SHARED['ntv2'] = lambda: gnt.read_ntv2_file(ntv2_path())
SHARED_CALLS.update({
    'ntv2.child': ('ntv2', lambda g: gnt.interpolate_ntv2(g, -29.5, 149.4, 'bicubic')),
    'ntv2.parent': ('ntv2', lambda g: gnt.interpolate_ntv2(g, -29.9, 149.9, 'bilinear')),
    'ntv2.2d': ('ntv2', lambda g: gt.ntv2_2d(g, -29.45, 149.45, True, 'bilinear')),
})
SHARED_NAMES = sorted(SHARED_CALLS)
_LIVE = {}          # shared objects of the current execution (built before the calls / threads start)


def live(objname):
    if objname not in _LIVE:
        _LIVE[objname] = SHARED[objname]()
    return _LIVE[objname]


def shared_changed():
    """names of shared objects that no longer equal a freshly built one"""
    return sorted(n for n, o in _LIVE.items() if snp.canon(o) != snp.canon(SHARED[n]()))
# the seam: calls that reach a Transformation / TransformationSD / module-level table, used for schedule exploration
SEAM = ['conform7_vcv', 'conform7_rev_vcv', 'conform14_apm_vcv', 'conform14_apm_rev', 'conform14_itrf08_vcv',
        'conform14_itrf08_rev', 'add_date', 'add_date_apm', 'neg_t', 'atrf2014_to_gda2020_vcv', 'gda2020_to_atrf2014_vcv',
        'mga94_to_mga2020_vcv', 'k_val95', 'geo2grid_isg', 'coord_geo_tm_cart', 'vcv_cart2local', 'vcv_cart2local_p2',
        'mga2020_to_mga94_vcv_p2', 'conform14_user_alias']
BOUND2_QUICK = [('add_date', 'add_date')]
BOUND2_PAIRS = BOUND2_QUICK + [('conform7_vcv', 'conform7_rev_vcv'), ('conform14_apm_vcv', 'conform14_apm_vcv'), ('conform14_itrf08_rev', 'conform14_itrf08_vcv'),
                               ('add_date_apm', 'conform14_apm_rev')]


HELD = []       # (call name, result object, canonical form at return time): results belong to the caller


def scribble(r, args, reg):
    """A result belongs to the caller, who may work on it in place (flip an axis of a returned matrix, append to a returned list,
    set a field of a returned object).  Every result that is not one of the call's own arguments (x += y returns x) nor a shipped
    constant (reported as 'alias') is overwritten at its top level right after the call; later calls must not notice."""
    import numpy as np
    skip = [id(a) for a in args] + [id(c) for c in reg.values()] + [id(o) for o in _LIVE.values()]
    for p in (r if isinstance(r, tuple) else (r,)):
        if id(p) in skip:
            continue
        try:
            if isinstance(p, np.ndarray):
                if p.flags.writeable and p.size and p.dtype.kind in 'fiu':
                    p[...] = 77
            elif isinstance(p, list):
                p.append('scribble')
            elif isinstance(p, dict):
                p['scribble'] = 77
            elif hasattr(p, '__dict__') and not isinstance(p, type) and not callable(p):
                for k, v in list(vars(p).items()):
                    if isinstance(v, (int, float)) and not isinstance(v, bool):
                        object.__setattr__(p, k, 77.125)
        except Exception:
            pass


def execute(name):
    """one real call: returns (canonical result, list of argument violations)"""
    if name in SHARED_CALLS:
        objname, fn = SHARED_CALLS[name]
        args = [live(objname)]
    else:
        fn, args = ALPHABET[name]()
    before = [snp.canon(a) for a in args]
    try:
        r = fn(*args)
        reg = snp.constants_registry()
        alias = [k for part in (r if isinstance(r, tuple) else (r,)) for k, c in reg.items() if part is c]
        # an operation documented to build a new object that hands out the shipped constant itself: the caller's edits of "its"
        # result would rewrite the constant
        res = ('alias', tuple(alias[:2])) if alias else ('ok', snp.canon(r))
        if not alias:
            scribble(r, args, reg)
        HELD.append((name, r, snp.canon(r)))
        del HELD[:-4]
    except Exception as e:
        res = ('raise', type(e).__name__, str(e)[:120])
    after = [snp.canon(a) for a in args]
    changed = [i for i, (b, a) in enumerate(zip(before, after)) if b != a]
    return res, changed


class ChildTimeout(Exception):
    pass


def in_child(fn, timeout=None):
    """runs fn() in a forked copy of this (pristine) interpreter and returns its picklable result; with a timeout the child is killed
    and ChildTimeout raised (a call blocked on a lock that a finished call left held never returns)"""
    import pickle
    import select
    r, w = os.pipe()
    pid = os.fork()
    if pid == 0:
        try:
            os.close(r)
            try:
                out = ('ok', fn())
            except BaseException as e:
                import traceback
                out = ('err', traceback.format_exc())
            with os.fdopen(w, 'wb') as f:
                pickle.dump(out, f)
        finally:
            os._exit(0)
    os.close(w)
    try:
        if timeout is not None:
            chunks, t_end = [], __import__('time').time() + timeout
            while True:
                left = t_end - __import__('time').time()
                if left <= 0 or not select.select([r], [], [], left)[0]:
                    raise ChildTimeout('no answer within %.0f s' % timeout)
                b = os.read(r, 1 << 20)
                if not b:
                    break
                chunks.append(b)
            os.close(r)
            data = b''.join(chunks)
        else:
            with os.fdopen(r, 'rb') as f:
                data = f.read()
        os.waitpid(pid, 0)
    except BaseException:
        # watchdog / interruption: never leave the forked interpreter behind
        try:
            os.kill(pid, 9)
            os.waitpid(pid, 0)
        except OSError:
            pass
        raise
    out = pickle.loads(data)
    if out[0] == 'err':
        raise HarnessError('child failed:\n' + out[1])
    return out[1]


_FK = {}


def fn_key(name):
    if name not in _FK:
        f = ALPHABET[name]()[0]
        _FK[name] = (getattr(f, '__module__', '?'), getattr(f, '__qualname__', repr(f)))
    return _FK[name]


_REF = {}


def references():
    if not _REF:
        for n in NAMES + SHARED_NAMES:
            _REF[n] = in_child(lambda n=n: execute(n)[0])
    return _REF


def prepare(tier, seed):
    ntv2_path()
    references()
    dirty_calls()       # computed once here, before the worker pool forks
    if tier == 'thorough':
        # opcode granularity must really be finer than line granularity on this interpreter (it silently was not on
        # CPython 3.12 until the instrumentation was warmed up); otherwise the thorough tier would claim more than it does
        files = traced_files(())
        pl = run_schedule([['neg_t'], ['k_val95']], files, [], False)
        po = run_schedule([['neg_t'], ['k_val95']], files, [], True)
        if len(po['points']) < 2 * len(pl['points']):
            raise HarnessError('opcode-granularity tracing is not effective: %d points vs %d line points'
                               % (len(po['points']), len(pl['points'])))


def run_history(hist):
    """executes the calls of hist in order in this process; returns per-step observations"""
    global PRISTINE_PROC
    if PRISTINE_PROC is None:
        PRISTINE_PROC = snp.snap_process()
    obs = []
    _LIVE.clear()
    for n in hist:
        if n in SHARED_CALLS:
            live(SHARED_CALLS[n][0])
    for n in hist:
        BAR.take()
        res, changed = execute(n)
        writes = BAR.take()
        const_same = snp.snap_constants() == PRISTINE_CONST
        mods = snp.snap_modules()
        stale = [hn for (hn, hr, hc) in HELD[:-1] if snp.canon(hr) != hc]
        pdiff = snp.diff_process(PRISTINE_PROC, snp.snap_process())
        if shared_changed():
            changed = changed or [0]
        obs.append({'call': n, 'res': res, 'args_changed': changed, 'writes': writes[:6], 'n_writes': len(writes),
                    'const_same': const_same, 'mod_diff': snp.diff_modules(PRISTINE_MODS, mods), 'stale': stale, 'proc_diff': pdiff,
                    'state': hash((snp.snap_constants(), tuple(sorted(mods.items()))))})
    return obs


def gen_seq(tier, seed):
    depth = 3 if tier == 'thorough' else 2
    for a in NAMES:
        yield {'first': a, 'depth': depth}
    # histories on ONE shared object: every sequence of calls on the same object up to depth 3
    for oname in sorted(SHARED):
        yield {'shared_obj': oname, 'depth': 3}


def check_obs(rec, hist, obs, one):
    ref = references()
    o = obs[-1]
    n = o['call']
    co = {'call': n, 'history': hist}
    bad = False
    if o['n_writes']:
        bad = True
        rec.fail('a shipped constant was written during the call', site='purity:write:' + o['writes'][0][0].split('.')[0],
                 observed=o['writes'], case=one, coords=co)
    if not o['const_same']:
        bad = True
        rec.fail('a shipped ellipsoid/projection/transformation/uncertainty constant changed', site='purity:constants',
                 observed=n, case=one, coords=co)
    if o['args_changed']:
        bad = True
        rec.fail('the call modified an argument supplied by the caller', site='purity:args:' + n, observed=o['args_changed'],
                 case=one, coords=co)
    if o.get('proc_diff'):
        bad = True
        rec.fail('the call changed process-wide interpreter state (%s)' % ', '.join(o['proc_diff']), site='purity:process-state:' + o['proc_diff'][0],
                 observed=o['proc_diff'], case=one, coords=co)
    if o.get('stale'):
        bad = True
        rec.fail('a value returned by an earlier call (%s) was changed by a later call: results share storage' % o['stale'][0],
                 site='purity:result-overwritten:' + o['stale'][0], observed=o['stale'], case=one, coords=co)
    if o['res'][0] == 'alias':
        bad = True
        rec.fail('the call returned the shipped constant %s itself instead of a new object' % (o['res'][1],), site='purity:result-is-constant:' + n,
                 observed=o['res'][1], case=one, coords=co)
    elif o['res'] != ref[n]:
        bad = True
        if ref[n][0] != 'ok' and o['res'][0] != 'ok':
            pass
        rec.fail('result differs from the result of the same call in a pristine interpreter (depends on call history)',
                 site='purity:repeat:' + n, observed=str(o['res'])[:300], expected=str(ref[n])[:300], case=one, coords=co)
    if ref[n][0] != 'ok' and len(hist) == 1 and not n.startswith('raises_'):
        rec.fail('alphabet call raises in a pristine interpreter', site='purity:alphabet:' + n, observed=ref[n], case=one, coords=co)
    return bad


def ev_seq(case, rec):
    if 'history' in case:               # replay form
        hist = case['history']
        obs = in_child(lambda: run_history(hist))
        check_obs(rec, hist, obs, case)
        return
    if 'shared_obj' in case:
        calls = [n for n in SHARED_NAMES if SHARED_CALLS[n][0] == case['shared_obj']]
        hists = [[a] for a in calls] + [[a, b] for a in calls for b in calls] + [[a, b, c] for a in calls for b in calls for c in calls]

        def work_shared():
            return [(h, run_history(h)) for h in hists]
        for hist, obs in in_child(work_shared) if not dirty_modules() else [(h, in_child(lambda h=h: run_history(h))) for h in hists]:
            rec.transitions += len(hist)
            rec.nontriv(tuple(hist))
            for o in obs:
                rec.state(o['state'])
            bad = False
            for k in range(len(hist)):
                bad = check_obs(rec, hist[:k + 1], obs[:k + 1], {'history': hist}) or bad
                if bad:
                    break
            rec.outcome('bad' if bad else 'pure')
        rec.sample({'shared_obj': case['shared_obj'], 'histories': len(hists)})
        return
    a, depth = case['first'], case['depth']

    def work():
        out = []
        states = set()
        # depth-first over histories starting with a; each history runs in its own forked pristine copy
        hists = [[a]]
        if depth >= 2:
            hists += [[a, b] for b in NAMES]
            # the call again after one other call: [a, b, a] (a counter / second-use cache shows on the third step only)
            # (quick: b ranges over the calls of the same function / the same module as a and over every call that is known
            #  to leave module-level data behind; thorough: every b)
            fa = fn_key(a)
            hists += [[a, b, a] for b in NAMES if depth >= 3 or fn_key(b)[0] == fa[0] or b in dirty_calls()]
        for h in hists:
            obs = in_child(lambda h=h: run_history(h))
            out.append((h, obs))
        if depth >= 3:
            # depth 3 over the core alphabet (one representative per function / configuration); the hash twins, rejected calls
            # and array / statement variants take part in every history of depth 2 and in [a, b, a]
            core = [n for n in NAMES if not n.startswith('raises_') and not n.endswith(('_m1', '_m2', '_lm1', '_lm2', '_arr', '_arr_co2', '_p2', '_p3'))]
            for b in core:
                for c in core:
                    h = [a, b, c]
                    obs = in_child(lambda h=h: run_history(h))
                    out.append((h, [obs[-1]]))
        return out
    res = work()
    moddiffs = {}
    for hist, obs in res:
        rec.transitions += len(hist)
        rec.nontriv(tuple(hist))
        one = {'history': hist}
        for o in obs[-1:] if len(obs) == 1 and len(hist) > 1 else obs:
            rec.state(o['state'])
            for m, keys in o['mod_diff'].items():
                moddiffs.setdefault(m, set()).update(keys)
        bad = check_obs(rec, hist, obs, one)
        rec.outcome('bad' if bad else 'pure')
    if moddiffs:
        rec.outcome('module-state-changed:' + ','.join(sorted(moddiffs)))
    rec.sample({'first': a, 'histories': len(res), 'module_level_changes': {m: sorted(k) for m, k in moddiffs.items()}})


# ------------------------------------------------------------------------------------------------
def traced_files(extra_modules=()):
    base = ['geodepy/transform.py', 'geodepy/constants.py', 'geodepy/coord.py', 'geodepy/statistics.py']
    files = {os.path.realpath(os.path.join(REPO, f)) for f in base}
    for m in extra_modules:
        mod = sys.modules.get(m)
        if mod is not None and getattr(mod, '__file__', None):
            files.add(os.path.realpath(mod.__file__))
    return files


_DIRTY = {}


def dirty_calls():
    """alphabet calls whose single execution in a pristine interpreter changes module-level data of the library (a cache, a
    scratch buffer, a counter).  They join the schedule-exploration seam, and their modules get scheduling points."""
    if 'calls' not in _DIRTY:
        out = {}
        for n in NAMES:
            d = in_child(lambda n=n: sorted(run_history([n])[0]['mod_diff']))
            if d:
                out[n] = d
        _DIRTY['calls'] = out
        mods = set()
        for d in out.values():
            mods.update(d)
        _DIRTY['m'] = sorted(mods)
    return _DIRTY['calls']


def dirty_modules():
    """modules in which one sequential run of the whole alphabet changes module-level data (re-enables
    scheduling points there: a mutant that hoists a scratch buffer to module scope is preempted inside it)"""
    if 'm' not in _DIRTY:
        def work():
            obs = run_history(NAMES)
            out = set()
            for o in obs:
                out.update(o['mod_diff'])
            return sorted(out)
        _DIRTY['m'] = in_child(work)
    return _DIRTY['m']


def gen_sched(tier, seed):
    # unordered pairs: the first scheduling decision is free, so [a, b] and [b, a] have the same interleavings
    b2 = BOUND2_PAIRS if tier == 'thorough' else BOUND2_QUICK
    nparts = 8
    # quick: the reverse-direction / wrapper twins of calls already in the seam are left to the thorough tier
    seam = SEAM if tier == 'thorough' else [n for n in SEAM if n not in (
        'conform14_apm_rev', 'conform14_itrf08_rev', 'gda2020_to_atrf2014_vcv', 'atrf2014_to_gda2020_vcv', 'add_date_apm')]
    # calls that leave module-level data behind (none on a pure tree) are thread-unsafe suspects whatever module they live in
    seam = seam + [n for n in sorted(dirty_calls()) if n not in seam][:8]
    for i, a in enumerate(seam):
        for b in seam[i:]:
            if (a, b) in b2 or (b, a) in b2:
                for k in range(nparts):
                    yield {'threads': [[a], [b]], 'bound': 2, 'part': [k, nparts]}
            else:
                yield {'threads': [[a], [b]], 'bound': 1}
    # two calls in one thread against one call in the other (a later call in the same thread reads what the
    # interleaving left behind)
    for a, b in (('vcv_cart2local_p2', 'vcv_cart2local'), ('conform14_itrf08_vcv', 'add_date'), ('k_val95', 'conform7_vcv'),
                 ('conform14_user_alias', 'conform14_apm_vcv')):
        yield {'threads': [[a, a], [b]], 'bound': 1}
    # a REJECTED call in one thread, an ordinary call in the other (and the ordinary call again afterwards): what a failed call leaves
    # behind - a lock still held, a flag still set - must not reach another thread (a call that never returns is reported as a deadlock)
    for a in ('raises_geo2grid_ell', 'raises_grid2geo_ell', 'raises_mga2020_zone61', 'raises_conform7_rot', 'raises_vincinv_ell', 'raises_geo2grid_band'):
        for b in ('geo2grid', 'conform7_vcv', 'mga94_to_mga2020_p3'):
            yield {'threads': [[a], [b]], 'bound': 0, 'isolated': True}
    # a call documented to WARN next to calls of every traced module (a call that manipulates the process-wide warning filters
    # while it runs turns the other thread's warning into an exception)
    for a in ('relative_error', 'error_ellipse', 'conform7_vcv', 'coord_geo_tm_cart', 'vcv_cart2local', 'k_val95', 'add_date'):
        for b in ('geo2grid_isg_grs80', 'coord_tm_isg_geo'):
            yield {'threads': [[a], [b]], 'bound': 1}
    # two threads working on the SAME caller-owned object
    quick_objs = ('geo2d', 'tderived', 'vcv', 'obs', 'tm', 'parr')      # the NTv2 grid object: thorough tier here, and C17's own 'threads' sub-check
    for oname in sorted(SHARED):
        if tier != 'thorough' and oname not in quick_objs:
            continue
        calls = [n for n in SHARED_NAMES if SHARED_CALLS[n][0] == oname]
        if tier != 'thorough':
            calls = calls[:3]
        for i, a in enumerate(calls):
            for b in calls[i:]:
                yield {'threads': [[a], [b]], 'bound': 2 if tier == 'thorough' and oname in ('geo2d', 'tderived') else 1, 'shared': True,
                       'deep': tier == 'thorough' and oname != 'ntv2'}
    if tier == 'thorough':
        for a in SEAM[:8]:
            yield {'threads': [[a], ['add_date'], ['conform14_itrf08_vcv']], 'bound': 1}
        # opcode granularity (the real atomicity unit of the interpreter lock) on the structural pairs: every single preemption
        for (a, b) in BOUND2_PAIRS:
            for k in range(nparts):
                yield {'threads': [[a], [b]], 'bound': 1, 'opcode': True, 'part': [k, nparts]}


def run_schedule(threads, files, prefix, opcode, timeout=None):
    """ONE execution, in a forked pristine interpreter: the threads run under the given schedule prefix (default choice
    afterwards); then every call is executed once more sequentially (probe) so that state corrupted by the interleaving
    and read only by a LATER call is seen too."""
    return in_child(lambda: run_schedule_here(threads, files, prefix, opcode, True), timeout=timeout)


def run_schedule_here(threads, files, prefix, opcode, full_snapshot):
    ref = references()

    def work():
        proc0 = snp.snap_process()
        _LIVE.clear()
        for calls in threads:
            for n in calls:
                if n in SHARED_CALLS:
                    live(SHARED_CALLS[n][0])
        bodies = [(lambda calls=calls: [execute(n) for n in calls]) for calls in threads]
        ex = sched.Execution(bodies, files, prefix, opcode=opcode).run()
        writes = BAR.take()
        bad = []
        results = []
        for i, calls in enumerate(threads):
            if ex.errors[i] is not None:
                bad.append(('thread-error', repr(ex.errors[i])[:200]))
                results.append('error')
                continue
            results.append(ex.results[i])
            for n, (res, changed) in zip(calls, ex.results[i]):
                if changed:
                    bad.append(('args', n))
                if res[0] == 'alias':
                    bad.append(('result-is-constant', n, res[1]))
                elif res != ref[n]:
                    bad.append(('result', n, str(res)[:160]))
        if writes:
            bad.append(('write', writes[:4]))
        for calls in threads:              # sequential probe after the concurrent phase
            for n in calls:
                res, changed = execute(n)
                if res != ref[n]:
                    bad.append(('result-after', n, str(res)[:160]))
        if BAR.take():
            bad.append(('write-after', None))
        if shared_changed():
            bad.append(('shared-object-changed', shared_changed()))
        pd = snp.diff_process(proc0, snp.snap_process())
        if pd:
            bad.append(('process-state-changed', pd))
        # full snapshot (3 ms): whenever the barrier saw a write, on the default schedule and on every 8th schedule
        if (writes or (full_snapshot and (not prefix or (sum(prefix) + len(prefix)) % 8 == 0))) \
                and snp.snap_constants() != PRISTINE_CONST:
            bad.append(('constants-changed', None))
        return {'points': ex.points, 'choices': ex.choices, 'trace': ex.trace_log[:400], 'bad': bad,
                'outcome': hash(repr((results, bool(bad))))}
    return work()


def ev_sched(case, rec):
    threads = case['threads']
    files = traced_files(dirty_modules())
    if case.get('shared'):
        # the modules that own / read the shared object get scheduling points too
        own = threads[0][0].split('.')[0]
        extra = {'obs': ('geodepy/survey.py',), 'parr': ('geodepy/survey.py',), 'dms': ('geodepy/angles.py',),
                 'ntv2': ('geodepy/ntv2reader.py',)}.get(own, ())
        if case.get('deep'):
            extra = extra + ('geodepy/convert.py',)
        for f in extra:
            files.add(os.path.realpath(os.path.join(REPO, f)))
    opcode = bool(case.get('opcode'))
    if 'schedule' in case:                 # replay of one recorded schedule
        r = run_schedule(threads, files, case['schedule'], opcode)
        r2 = run_schedule(threads, files, case['schedule'], opcode)
        if r['trace'] != r2['trace']:
            raise HarnessError('replaying a recorded schedule twice gave different traces')
        if r['bad']:
            rec.fail('recorded schedule breaks purity: %s' % sorted({b[0] for b in r['bad']}), site='purity:schedule:' + r['bad'][0][0],
                     observed=r['bad'])
        return
    part = tuple(case['part']) if case.get('part') else None
    if case.get('isolated'):
        # whole calls in both orders, each execution in its own forked interpreter under a time limit: a call that never returns
        # (blocked on something a finished - rejected - call left held) is a deadlock, not a hang of the checker
        rec.nontriv((repr(threads), 'isolated'))
        for order in ([], [1]):
            try:
                r = run_schedule(threads, files, order, opcode, timeout=40)
            except ChildTimeout:
                rec.fail('after / next to the rejected call %s another thread\'s %s never returns (deadlock)' % (threads[0], threads[1]),
                         site='purity:schedule:deadlock', observed='no answer within 40 s', case=dict(case, schedule=order), coords={'threads': threads})
                rec.outcome('sched-deadlock')
                return
            rec.transitions += 2
            if r['bad']:
                rec.fail('a rejected call in one thread changes what another thread\'s call returns: %s' % sorted({b[0] for b in r['bad']}),
                         site='purity:schedule:' + r['bad'][0][0], observed=r['bad'], case=dict(case, schedule=order), coords={'threads': threads})
                rec.outcome('sched-bad')
                return
        rec.state(('sched-isolated', repr(threads)))
        rec.outcome('sched-ok:isolated')
        return

    def explore_all(forked):
        out = {'viol': [], 'outcomes': set(), 'nbad': 0}

        def check(ex):
            out['outcomes'].add(ex['outcome'])
            if ex['bad']:
                out['nbad'] += 1
                if len(out['viol']) < 3:
                    out['viol'].append({'schedule': list(ex['choices']), 'trace': ex['trace'], 'bad': ex['bad']})
        if forked:
            st = sched.explore(lambda prefix: run_schedule(threads, files, prefix, opcode), case['bound'], check, part=part)
        else:
            st = sched.explore(lambda prefix: run_schedule_here(threads, files, prefix, opcode, False), case['bound'], check, part=part)
            if snp.snap_constants() != PRISTINE_CONST:
                out['nbad'] += 1
                out['viol'].append({'schedule': [], 'trace': [], 'bad': [('constants-changed', None)]})
        out['st'] = st
        out['outcomes'] = sorted(out['outcomes'])
        return out

    # The tree never touches module-level data in the sequential pass (dirty_modules() empty): one forked interpreter
    # serves the whole exploration of this case, because every execution leaves it pristine.  Otherwise (a mutant added
    # a cache / scratch buffer) every single schedule runs in its own forked pristine interpreter.
    forked = bool(dirty_modules())
    out = None
    if not forked:
        def shared():
            try:
                return explore_all(False)
            except sched.Divergence:
                return 'diverged'
        out = in_child(shared)
        if out == 'diverged':
            forked, out = True, None
    if out is None:
        try:
            out = explore_all(True)
        except sched.Divergence as e:
            # every execution started from a forked copy of the pristine interpreter and followed a recorded prefix of choices: the
            # harness is deterministic there (asserted on the unchanged tree at every run), so the library's control flow depends on
            # something that is neither its arguments nor the schedule
            rec.fail('the same prefix of scheduling choices, replayed in a pristine interpreter, led the library through different code '
                     '(its control flow depends on hidden state)', site='purity:replay-divergence', observed=str(e)[:300], case=case,
                     coords={'threads': repr(threads)})
            rec.outcome('diverged')
            return
    st = out['st']
    rec.outcome('mode-forked' if forked else 'mode-shared')
    # determinism: the default schedule replayed gives identical observations
    e1 = run_schedule(threads, files, [], opcode)
    e2 = run_schedule(threads, files, list(e1['choices']), opcode)
    if e1['trace'] != e2['trace'] or e1['outcome'] != e2['outcome']:
        rec.fail('the same schedule executed twice, each time from a pristine interpreter, gives different observations: results are '
                 'not a function of the arguments and the schedule', site='purity:replay-differs', observed=str(e2['outcome'])[:300],
                 expected=str(e1['outcome'])[:300], case=case, coords={'threads': repr(threads)})
        rec.outcome('replay-differs')
        return
    rec.transitions += st['executions'] * sum(len(c) for c in threads)
    rec.nontriv((repr(threads), case['bound'], opcode, repr(case.get('part'))))
    rec.state(('sched', repr(threads), len(out['outcomes'])))
    rec.dev('schedules', st['executions'])
    rec.dev('scheduling_points', st['max_points'])
    if out['viol']:
        v = out['viol'][0]
        kinds = sorted({b[0] for b in v['bad']})
        rec.fail('under a thread interleaving the calls %s break purity (%s); %d of %d schedules, %d distinct outcomes'
                 % (threads, ','.join(kinds), out['nbad'], st['executions'], len(out['outcomes'])),
                 site='purity:schedule:' + kinds[0], observed=v, case=dict(case, schedule=v['schedule']),
                 coords={'threads': threads, 'bound': case['bound']})
        rec.outcome('sched-bad')
    else:
        rec.outcome('sched-ok:%d-outcome' % len(out['outcomes']))
    rec.sample({'threads': threads, 'bound': case['bound'], 'schedules': st['executions'], 'scheduling_points': st['max_points'],
                'distinct_outcomes': len(out['outcomes'])})


# ------------------------------------------------------------------------------------------------
# long histories: N distinct argument tuples through one function, then all of them again in reverse order.  Every second
# evaluation must reproduce the first bit for bit, and the first N are anchored by the same calls in a pristine interpreter
# on a sparse subset.  A bounded result store (LRU, "last 1024 results"), a table that grows until it is cleared, a
# counter-driven code path or a key that collides somewhere in a large argument set shows here and in no short history.
def _soak_args(kind, n):
    out = []
    for i in range(n):
        a = -80.0 + 160.0 * ((i * 0.6180339887498949) % 1.0)
        b = -179.0 + 358.0 * ((i * 0.7548776662466927) % 1.0)
        j = i % 7
        if kind == 'geo':
            out.append((round(a, 6), round(b, 6)))
        elif kind == 'geoint':
            out.append((int(a), int(b)))
        elif kind == 'grid':
            out.append((1 + i % 60, round(200000.0 + 600000.0 * ((i * 0.569840290998) % 1.0), 3), round(1.0e6 + 8.0e6 * ((i * 0.3819660112501051) % 1.0), 3)))
        elif kind == 'xyz':
            out.append((round(6.4e6 * math.cos(math.radians(a)) * math.cos(math.radians(b)), 3), round(6.4e6 * math.cos(math.radians(a)) * math.sin(math.radians(b)), 3),
                        round(6.4e6 * math.sin(math.radians(a)), 3)))
        elif kind == 'line':
            out.append((round(a, 6), round(b, 6), round(a * 0.5 + j, 6), round(b * 0.5 + 3 * j, 6)))
        elif kind == 'dirn':
            out.append((round(a, 6), round(b, 6), round((i * 137.50776405) % 360.0, 6), round(10.0 ** (1 + 6 * ((i * 0.2360679775) % 1.0)), 3)))
        elif kind == 'angle':
            out.append((round(-720.0 + 1440.0 * ((i * 0.6180339887498949) % 1.0), 9),))
        elif kind == 'atm':
            out.append((0.4 + 0.2 * (i % 7), round(-20.0 + 65.0 * ((i * 0.6180339887498949) % 1.0), 3), round(650.0 + 450.0 * ((i * 0.7548776662466927) % 1.0), 2),
                        round(30.0 * ((i * 0.569840290998) % 1.0), 3), 300 + 50 * (i % 5)))
    return out


SOAK = {
    'geo2grid': ('geo', lambda a: gv.geo2grid(*a)),
    'geo2grid_int': ('geoint', lambda a: gv.geo2grid(*a)),
    'geo2grid_ans_isgless': ('geo', lambda a: gv.geo2grid(a[0], a[1], 0, gc.ans)),
    'grid2geo': ('grid', lambda a: gv.grid2geo(a[0], a[1], a[2])),
    'grid2geo_north_intl': ('grid', lambda a: gv.grid2geo(a[0], a[1], a[2], 'north', gc.intl24)),
    'llh2xyz': ('geo', lambda a: gv.llh2xyz(a[0], a[1], 100.0 * a[0])),
    'xyz2llh': ('xyz', lambda a: gv.xyz2llh(*a)),
    'vincinv': ('line', lambda a: gg.vincinv(*a)),
    'vincdir': ('dirn', lambda a: gg.vincdir(*a)),
    'rotation_matrix': ('geo', lambda a: gs.rotation_matrix(*a)),
    'rotation_matrix_int': ('geoint', lambda a: gs.rotation_matrix(*a)),
    'dec2hp': ('angle', lambda a: ga.dec2hp(a[0])),
    'dec2dms': ('angle', lambda a: ga.dec2dms(a[0])),
    'hp_roundtrip': ('angle', lambda a: ga.hp2dec(ga.dec2hp(a[0]))),
    'conform7': ('xyz', lambda a: gt.conform7(a[0], a[1], a[2], gc.gda94_to_gda2020, A(V33))),
    'conform14': ('xyz', lambda a: gt.conform14(a[0], a[1], a[2], datetime.date(1990 + int(abs(a[0])) % 60, 1 + int(abs(a[1])) % 12, 1 + int(abs(a[2])) % 28),
                                               gc.itrf2014_to_gda2020, A(V33))),
    'add_date': ('xyz', lambda a: (lambda t: [t.tx, t.ty, t.tz, t.sc, t.rx, t.ry, t.rz, str(t.ref_epoch)])(
        gc.itrf2008_to_gda94 + datetime.date(1990 + int(abs(a[0])) % 60, 1 + int(abs(a[1])) % 12, 1 + int(abs(a[2])) % 28))),
    'group_refractivity': ('atm', lambda a: gsv.group_refractivity(*a)),
    'phase_refractivity': ('atm', lambda a: gsv.phase_refractivity(*a)),
    'llh_coord': ('geo', lambda a: (lambda c: (c.tm(), c.cart()))(gco.CoordGeo(a[0], a[1], 10.0, None))),
}


def gen_soak(tier, seed):
    n = 6000 if tier == 'thorough' else 1500
    for name in sorted(SOAK):
        yield {'soak': name, 'n': n}


def ev_soak(case, rec):
    kind, fn = SOAK[case['soak']]
    args = _soak_args(kind, case['n'])

    def one(a):
        try:
            return ('ok', snp.canon(fn(a)))
        except Exception as e:
            return ('raise', type(e).__name__)

    def work():
        first = [one(a) for a in args]
        second = [one(a) for a in reversed(args)][::-1]
        third = [one(a) for a in args[:64]]
        bad = [i for i in range(len(args)) if first[i] != second[i]] + [i for i in range(64) if first[i] != third[i]]
        return bad[:5], len(bad), [first[i] for i in range(0, len(args), 97)], len({f for f in first})

    def anchor():
        return [one(args[i]) for i in range(0, len(args), 97)]
    bad, nbad, sparse, distinct = in_child(work)
    ref = in_child(anchor)
    rec.transitions += 2 * len(args) + 64
    rec.nontriv((case['soak'], case['n']))
    rec.state(('soak', case['soak'], distinct))
    if distinct < len(args) // 3:
        raise HarnessError('soak %s: only %d distinct results from %d argument tuples (vacuous)' % (case['soak'], distinct, len(args)))
    if nbad:
        rec.fail('after %d other calls the same call no longer returns what it returned the first time (%d of %d argument tuples)'
                 % (len(args), nbad, len(args)), site='purity:long-history:' + case['soak'], observed=[list(args[i]) for i in bad], case=case,
                 coords={'function': case['soak'], 'n': case['n']})
        rec.outcome('soak-bad')
    elif sparse != ref:
        k = [i for i, (x, y) in enumerate(zip(sparse, ref)) if x != y]
        rec.fail('a call inside a long history returns something else than in a pristine interpreter', site='purity:long-history:' + case['soak'],
                 observed=[list(args[97 * i]) for i in k[:5]], case=case, coords={'function': case['soak'], 'n': case['n']})
        rec.outcome('soak-bad')
    else:
        rec.outcome('soak-ok')
    rec.sample({'function': case['soak'], 'calls': 2 * len(args) + 64, 'distinct_results': distinct})


from gpmc import interp as _ip


SUBCHECKS = [
    Sub('soak', gen_soak, ev_soak, chunk=1, floor=10, timeout=1800, poison=False),
    Sub('seq', gen_seq, ev_seq, chunk=1, floor=40, timeout=3600, poison=False),
    Sub('sched', gen_sched, ev_sched, chunk=1, floor=100, timeout=3600, poison=False),
    Sub('interpreter', *_ip.make('C09', 'purity'), chunk=1, floor=5, poison=False),
]


def bounds(tier, seed):
    return {'alphabet': len(NAMES), 'history_depth': 3 if tier == 'thorough' else 2, 'seam': SEAM, 'threads': 2,
            'preemption_bound': {'all_seam_pairs': 1, 'structural_pairs': 2}, 'structural_pairs': BOUND2_PAIRS,
            'granularity': 'line (opcode on structural pairs in thorough)'}
