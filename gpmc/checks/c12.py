"""C12 — angle-object arithmetic and comparison agree with decimal-degree arithmetic.

Explicit-state search: a state is an angle object (class + exact fields); a transition is one operator
application from the alphabet
    a + b, a - b, a.__radd__(b), a.__rsub__(b)      b any leaf (16 values x 5 classes)
    -a, abs(a), a*k, k*a, a/k                       k in {2, -1, 0.5, 3, -0.25}
    a % k (DMS, DDM)                                k in {360, 90, 1}
    round(a, n) (DEC, GON, DMS, DDM)                n in 0..4
    a == b, a != b, a < b, a > b                    b any leaf
  ops    : BFS from every leaf to depth 2 over the full alphabet (3 over a 6-value sub-alphabet in thorough)
  chains : one left-deep expression of depth 6 over 2 values evaluated once per assignment of the five classes
           to its seven leaves (5^7), compared with float evaluation
Oracle: the same operator applied to the decimal degrees the operands DENOTE (read from their public fields, never through
the library's own dec()); tolerance 1e-8"; class of the left operand.
"""
import itertools
import math

import geodepy.angles as ga
from gpmc import cfg
from gpmc.core import Sub

PROPERTY = 'C12'
TOL_DEG = 1e-8 / 3600.0
ASSUMPTIONS = [
    'the reference is IEEE float arithmetic on the decimal degrees the operands denote, read from their public fields (float error << 1e-8")',
    'intermediate magnitudes are kept below 720 deg: states beyond are not expanded',
    'reflected operators are invoked explicitly (a.__rsub__(b) must equal b - a); the class rule is asserted for the '
    'direct forms, where the left operand is unambiguous',
]
CLASSES = ['deca', 'hpa', 'gona', 'dms', 'ddm']
S = 1.0 / 3600.0
VALUES = [0.0, S, -S, 0.5, -0.5, 0.3, -0.3, 1.0, -1.0, 2.0 + 1.0 / 60, -(2.0 + 1.0 / 60),
          59.0 + 59.0 / 60 + 59.999999 / 3600, -(59.0 + 59.0 / 60 + 59.999999 / 3600), 60.0, 90.0, 180.0,
          359.0 + 59.0 / 60 + 59.0 / 3600, 360.0]
# near-twins at a large angle: their differences (2e-8" ... 5e-7") are far above the 1e-8" tolerance but tiny relative to the
# operands (a "relative" zero test swallows them); explored among themselves (alphabet 'twins')
TWIN_VALUES = [300.0, 300.0 + 2e-8 / 3600, 300.0 + 5e-7 / 3600, -(300.0 + 1e-7 / 3600), -300.0, 300.0 - 3e-8 / 3600]
import numpy as _np
KS = [2, -1, 0.5, 3, -0.25, _np.float64(-2.0), _np.int64(3)]
MODS = [360, 90, 1, -360, -90.0, 0.5, _np.float64(-1.0), _np.int64(180)]
NS = [0, 1, 2, 3, 4]
ROUND_UNIT = {'deca': ('deg', lambda o: o.dec_angle), 'gona': ('gon', lambda o: o.gon_angle),
              'dms': ('sec', None), 'ddm': ('min', None)}


def kind_of(o):
    return {ga.DECAngle: 'deca', ga.HPAngle: 'hpa', ga.GONAngle: 'gona', ga.DMSAngle: 'dms', ga.DDMAngle: 'ddm'}.get(type(o))


def key(o):
    k = kind_of(o)
    if k == 'deca':
        return (k, float(o.dec_angle).hex())
    if k == 'hpa':
        return (k, float(o.hp_angle).hex())
    if k == 'gona':
        return (k, float(o.gon_angle).hex())
    if k == 'dms':
        return (k, bool(o.positive), int(o.degree), int(o.minute), float(o.second).hex())
    if k == 'ddm':
        return (k, bool(o.positive), int(o.degree), float(o.minute).hex())
    return ('other', repr(o))


def leaf(value, kind):
    return cfg.as_type(value, kind)


def den(o):
    """decimal degrees the object denotes, from its public fields (never through the library's own dec())"""
    k = type(o)
    if k is ga.DMSAngle:
        v = o.degree + o.minute / 60.0 + o.second / 3600.0
        return v if o.positive else -v
    if k is ga.DDMAngle:
        v = o.degree + o.minute / 60.0
        return v if o.positive else -v
    if k is ga.DECAngle:
        return float.__float__(o)
    if k is ga.GONAngle:
        return o.gon_angle * 0.9
    return cfg.denote(o)


def all_leaves(values):
    out = []
    for v in values:
        for k in CLASSES:
            try:
                out.append((v, k, leaf(v, k)))
            except Exception:
                out.append((v, k, None))
    return out


def in_unit(o, kind):
    """value of the object in the unit its round() works in, sign included"""
    if kind == 'deca':
        return o.dec_angle
    if kind == 'gona':
        return o.gon_angle
    if kind == 'dms':
        v = o.degree * 3600.0 + o.minute * 60.0 + o.second
        return v if o.positive else -v
    if kind == 'ddm':
        v = o.degree * 60.0 + o.minute
        return v if o.positive else -v


def transitions(a, ka, leaves):
    """yields (label, callable, expected_dec or None, expected_class or None, kind) for every enabled operator"""
    da = den(a)
    for (v, kb, b) in leaves:
        if b is None:
            continue
        db = den(b)
        lab = '%s:%r' % (kb, v)
        yield ('add ' + lab, lambda b=b: a + b, da + db, ka, 'val')
        yield ('sub ' + lab, lambda b=b: a - b, da - db, ka, 'val')
        yield ('radd ' + lab, lambda b=b: a.__radd__(b), db + da, None, 'val')
        yield ('rsub ' + lab, lambda b=b: a.__rsub__(b), db - da, None, 'val')
        yield ('eq ' + lab, lambda b=b: a == b, da == db, None, 'cmp')
        yield ('ne ' + lab, lambda b=b: a != b, da != db, None, 'cmp')
        yield ('lt ' + lab, lambda b=b: a < b, da < db, None, 'cmp')
        yield ('gt ' + lab, lambda b=b: a > b, da > db, None, 'cmp')
    # augmented assignment (x *= k, x += b, ...): the statement's value is what x is bound to afterwards; it is applied to a copy
    # so that a class that chooses to update in place does not disturb the exploration
    import copy as _copy
    import operator as _op
    for k in KS[:5]:
        yield ('imul %r' % k, lambda k=k: _op.imul(_copy.copy(a), k), da * k, ka, 'val')
        yield ('idiv %r' % k, lambda k=k: _op.itruediv(_copy.copy(a), k), da / k, ka, 'val')
    for (v, kb, b) in leaves[::7]:
        if b is not None:
            db = den(b)
            yield ('iadd %s:%r' % (kb, v), lambda b=b: _op.iadd(_copy.copy(a), b), da + db, ka, 'val')
            yield ('isub %s:%r' % (kb, v), lambda b=b: _op.isub(_copy.copy(a), b), da - db, ka, 'val')
    if ka in ('dms', 'ddm'):
        for k in MODS[:3]:
            yield ('imod %r' % k, lambda k=k: _op.imod(_copy.copy(a), k), da % k, ka, 'val')
    yield ('neg', lambda: -a, -da, ka, 'val')
    yield ('abs', lambda: abs(a), abs(da), ka, 'val')
    for k in KS:
        yield ('mul %r' % k, lambda k=k: a * k, da * k, ka, 'val')
        if not isinstance(k, _np.generic) or ka != 'deca':      # numpy_scalar * DECAngle is numpy's own operation (DECAngle is a float)
            yield ('rmul %r' % k, lambda k=k: k * a, k * da, ka, 'val')
        yield ('div %r' % k, lambda k=k: a / k, da / k, ka, 'val')
    if ka in ('dms', 'ddm'):
        for k in MODS:
            yield ('mod %r' % k, lambda k=k: a % k, da % k, ka, 'val')
    if ka in ROUND_UNIT:
        for n in NS:
            yield ('round %d' % n, lambda n=n: round(a, n), n, ka, 'round')


def explore(rec, start, depth, leaves):
    v0, k0 = start
    try:
        a0 = leaf(v0, k0)
    except Exception as e:
        rec.fail('valid angle could not be constructed as %s' % k0, site='angles:construct:' + k0, observed=e)
        return
    seen = {key(a0)}
    rec.state(key(a0))
    frontier = [(a0, 0, [])]
    while frontier:
        a, d, path = frontier.pop(0)
        if d >= depth:
            continue
        ka = kind_of(a)
        ka_key = key(a)
        for label, fn, exp, ecls, kind in transitions(a, ka, leaves):
            if kind == 'val' and abs(exp) >= 720.0:
                continue
            rec.transitions += 1
            try:
                r = fn()
                if key(a) != ka_key:
                    # an operator that changes its own operand makes every later use of that angle depend on call order
                    rec.fail('operator modified its operand in place', site='angles:%s.%s:mutation' % (ka, label.split()[0]),
                             observed=repr(a), expected=repr(ka_key), coords={'path': path + [label], 'cls': ka})
                    rec.outcome('mutated')
                    break
            except Exception as e:
                rec.fail('operator raised on valid operands', site='angles:%s.%s' % (ka, label.split()[0]), observed=e,
                         coords={'path': path + [label], 'cls': ka})
                rec.outcome('raise')
                continue
            if kind == 'cmp':
                if r is not exp and r != exp:
                    rec.fail('comparison disagrees with the comparison of the decimal-degree values',
                             site='angles:%s.%s' % (ka, label.split()[0]), observed=r, expected=exp,
                             coords={'path': path + [label], 'cls': ka})
                    rec.outcome('cmp-bad')
                continue
            kr = kind_of(r)
            if kr is None:
                rec.fail('operator did not return an angle object', site='angles:%s.%s' % (ka, label.split()[0]), observed=repr(r),
                         coords={'path': path + [label]})
                continue
            if kind == 'round':
                n = exp
                ch = abs(in_unit(r, ka) - in_unit(a, ka))
                # half a unit of the n-th place + the float resolution of the value itself (seconds of a 15-degree DMS angle are
                # ~5e4: differences of such numbers carry ~1e-11 of rounding)
                lim = 0.5 * 10.0 ** (-n) + 16 * 2.220446049250313e-16 * max(1.0, abs(in_unit(a, ka)))
                if kr != ka or not (ch <= lim):
                    rec.fail('round(a, n) changes the angle by more than half a unit of the n-th place (or changes class)',
                             site='angles:%s.round' % ka, observed=repr(r), expected=repr(a), tol=lim,
                             coords={'path': path + [label], 'cls': ka, 'change': ch})
                    rec.outcome('round-bad')
            else:
                dv = abs(den(r) - exp)
                if not (dv <= TOL_DEG + 1e-15 * abs(exp)):
                    rec.fail('operator result differs from the same operation on the decimal-degree values',
                             site='angles:%s.%s' % (ka, label.split()[0]), observed=repr(r), expected=exp, tol=TOL_DEG,
                             coords={'path': path + [label], 'cls': ka, 'err_arcsec': dv * 3600})
                    rec.outcome('val-bad')
                    continue
                if ecls is not None and kr != ecls:
                    rec.fail('result of a binary/unary operation does not have the class of its left operand',
                             site='angles:%s.%s:class' % (ka, label.split()[0]), observed=kr, expected=ecls,
                             coords={'path': path + [label]})
                    rec.outcome('class-bad')
            k = key(r)
            if k not in seen:
                seen.add(k)
                rec.states.add(hash(k) & 0xFFFFFFFFFFFFFFFF)
                if abs(den(r)) < 720.0:
                    frontier.append((r, d + 1, path + [label]))
    for (v, kb, b) in leaves:
        if b is not None and abs(den(b) - v) > 1e-9:
            rec.fail('a right-hand operand was modified in place during the exploration', site='angles:operand:mutation',
                     observed=repr(b), expected=v)
    rec.outcome('explored')


FORM_KINDS = ['dmss', 'ddms', 'dmsa', 'ddma', 'dmsr', 'ddmr']      # other legal constructions of DMS / DDM objects (gpmc.cfg)


def gen_ops(tier, seed):
    for v in VALUES:
        for k in CLASSES:
            yield {'value': v, 'cls': k, 'depth': 3, 'alphabet': 'full'}
    for v in TWIN_VALUES:
        for k in CLASSES:
            yield {'value': v, 'cls': k, 'depth': 1, 'alphabet': 'twins'}
    # operands that reached their value by another legal construction: rebuilt from their text form, public fields
    # assigned after construction, a library result whose fields were then assigned
    for v in [0.0, -S, 0.5, -0.3, 2.0 + 1.0 / 60, -(59.0 + 59.0 / 60 + 59.999999 / 3600), 90.0, 1.0 + 1e-11]:
        for k in FORM_KINDS:
            yield {'value': v, 'cls': k, 'depth': 2, 'alphabet': 'forms'}
    if tier == 'thorough':
        for v in [0.0, S, -0.5, 0.3, -(2.0 + 1.0 / 60), 60.0]:
            for k in CLASSES:
                yield {'value': v, 'cls': k, 'depth': 4, 'alphabet': 'sub6'}


_LEAVES = {}


def ev_ops(case, rec):
    al = case['alphabet']
    if al not in _LEAVES:
        _LEAVES[al] = all_leaves(VALUES if al == 'full' else TWIN_VALUES if al == 'twins' else [0.0, S, -0.5, 0.3, -(2.0 + 1.0 / 60), 60.0])
        if al == 'forms':
            _LEAVES[al] = _LEAVES[al] + [(v, k, leaf(v, k)) for v in (0.3, -0.5, 60.0, -S) for k in FORM_KINDS]
    rec.nontriv()
    explore(rec, (case['value'], case['cls']), case['depth'], _LEAVES[al])
    rec.sample(case)


# --- the same expression under every assignment of classes to its leaves ---------------------------
CH_VALUES = [0.3, -(59.0 + 59.0 / 60 + 59.999999 / 3600), 2.0 + 1.0 / 60, -S, 90.0, 0.5, -0.3]
CH_OPS = ['+', '-', '+', '-', '+', '-']


def gen_chain(tier, seed):
    # cases are the assignments of the first two leaves; the remaining 5^5 are enumerated inside
    for c0 in CLASSES:
        for c1 in CLASSES:
            yield {'c0': c0, 'c1': c1}


def ev_chain(case, rec):
    ref = CH_VALUES[0]
    for v, o in zip(CH_VALUES[1:], CH_OPS):
        ref = ref + v if o == '+' else ref - v
    for rest in itertools.product(CLASSES, repeat=5):
        assign = (case['c0'], case['c1']) + rest
        try:
            objs = [leaf(v, k) for v, k in zip(CH_VALUES, assign)]
        except Exception as e:
            rec.fail('valid angle could not be constructed', site='angles:construct', observed=e, case=dict(case, rest=list(rest)))
            continue
        fl = den(objs[0])
        acc = objs[0]
        try:
            for b, o in zip(objs[1:], CH_OPS):
                acc = acc + b if o == '+' else acc - b
                fl = fl + den(b) if o == '+' else fl - den(b)
                rec.transitions += 1
        except Exception as e:
            rec.fail('expression raised under one assignment of classes to its leaves', site='angles:chain', observed=e,
                     case=dict(case, rest=list(rest)))
            continue
        rec.nontriv(assign)
        rec.state(key(acc))
        dv = abs(den(acc) - fl)
        rec.dev('chain_arcsec', dv * 3600)
        if not (dv <= 6 * TOL_DEG) or kind_of(acc) != case['c0']:
            rec.fail('the same expression evaluates to a different angle / class under this assignment of classes',
                     site='angles:chain', observed=repr(acc), expected=fl, tol=6 * TOL_DEG, case=dict(case, rest=list(rest)),
                     coords={'assign': list(assign), 'err_arcsec': dv * 3600})
    rec.outcome('chains')
    rec.sample(case)


def ev_chain_single(case, rec):
    if 'rest' in case:
        # replay of one assignment
        assign = (case['c0'], case['c1']) + tuple(case['rest'])
        objs = [leaf(v, k) for v, k in zip(CH_VALUES, assign)]
        acc, fl = objs[0], den(objs[0])
        for b, o in zip(objs[1:], CH_OPS):
            acc = acc + b if o == '+' else acc - b
            fl = fl + den(b) if o == '+' else fl - den(b)
        if abs(den(acc) - fl) > 6 * TOL_DEG or kind_of(acc) != case['c0']:
            rec.fail('the same expression evaluates to a different angle / class under this assignment of classes',
                     site='angles:chain', observed=repr(acc), expected=fl)
        return
    ev_chain(case, rec)


# --- two threads doing DIFFERENT angle arithmetic at the same time ----------
from gpmc import threads as _thr
import numpy as _tnp
import geodepy.constants as _tgc
import geodepy.convert as _tgv
import geodepy.geodesy as _tgg
import geodepy.angles as _tga
def _tk(v):
    return repr(v)


T_CALLS = {
    'dms_add': lambda: (lambda: _tk(_tga.DMSAngle(-0, 30, 15.25) + _tga.HPAngle(12.3045))),
    'hp_sub': lambda: (lambda: _tk(_tga.HPAngle(12.3045) - _tga.DDMAngle(100, 59.9999))),
    'gon_mul': lambda: (lambda: _tk(_tga.GONAngle(-33.5) * 2.5)),
    'ddm_div': lambda: (lambda: _tk(_tga.DDMAngle(359, 59.999) / 3)),
    'cmp': lambda: (lambda: [_tga.DMSAngle(1, 2, 3) < _tga.DECAngle(1.03), _tga.HPAngle(-0.3) == _tga.DDMAngle(-0, 30), _tga.GONAngle(100) > _tga.DMSAngle(89, 59, 59.9)]),
    'round_mod': lambda: (lambda: _tk((round(_tga.DMSAngle(12, 34, 56.789), 1), _tga.DMSAngle(400, 0, 1) % 360, abs(_tga.DDMAngle(-1, 2.5)), -_tga.HPAngle(0.0001)))),
}
_tg, _te = _thr.make(T_CALLS, ['geodepy/angles.py'], 'angles:arithmetic:threads', quick=['dms_add', 'hp_sub', 'gon_mul', 'ddm_div'],
                     triple=('dms_add', 'hp_sub', 'cmp'))


from gpmc import interp as _ip


SUBCHECKS = [
    Sub('ops', gen_ops, ev_ops, chunk=1, floor=80, timeout=1800, envs=8),
    Sub('chains', gen_chain, ev_chain_single, chunk=1, floor=1000, envs=6),
    Sub('threads', _tg, _te, chunk=1, floor=3, poison=False, fresh=True, timeout=7200),
    Sub('interpreter', *_ip.make('C12', 'angles'), chunk=1, floor=5, poison=False),
]


def bounds(tier, seed):
    return {'leaf_values': len(VALUES), 'classes': CLASSES, 'scalars': [repr(k) for k in KS], 'mods': [repr(k) for k in MODS], 'round_places': NS,
            'depth_full_alphabet': 3, 'depth_sub_alphabet': 4 if tier == 'thorough' else None,
            'chain_depth': 6, 'chain_assignments': 5 ** 7}
