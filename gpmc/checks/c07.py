"""C07 — 14-parameter transformation advances parameters linearly in time.

  epoch     : conform14 on {every shipped set with a date reference epoch, a few negations, a rate lattice}
              x epoch lattice (1980-01-01 .. 2060-12-31: range ends, every catalogue epoch +-1 day, every
              29 Feb, 1 Jan of every year) x points (all octants, |x| <= 1e7) against the exact 7-parameter formula
              with parameters advanced by rate x days/365.25 in exact rationals (2 um); at the reference epoch
              equal to conform7; depth 2: negated set at the same epoch closes within the C06 bound
  wrappers  : transform_atrf2014_to_gda2020 / transform_gda2020_to_atrf2014 are mutual inverses at every
              epoch of the lattice and the bit-exact identity at 2020-01-01
  covariance: conform14 with a covariance, for every set carrying rate uncertainties: J Q J^T with the
              uncertainties advanced to the epoch (sd^2 + (sd_rate dt)^2), identical on repeated calls
"""
import datetime
import math
from fractions import Fraction as F

import mpmath as mp
import numpy as np

import geodepy.constants as gc
from geodepy.transform import (conform7, conform14, transform_atrf2014_to_gda2020, transform_gda2020_to_atrf2014)
from gpmc import cfg
from gpmc import oracle_misc as om
from gpmc.core import Sub, HarnessError

PROPERTY = 'C07'
ASSUMPTIONS = [
    'elapsed time = (epoch - reference epoch).days / 365.25 exactly (Julian years), parameters from their decimal strings',
    'the implementation rounds advanced parameters to 8 decimals (<= 4e-7 m at |x| = 1.7e7 m), inside the 2 um tolerance',
    'second-order bound as in C06',
]
FIELDS = ['tx', 'ty', 'tz', 'sc', 'rx', 'ry', 'rz']
_SC = {}


def prepare(tier, seed):
    sc = om.helmert_selfcheck()
    _SC.update(sc)
    if not sc['ok']:
        raise HarnessError('Helmert oracle self-check failed: %r' % sc)


def evidence_extra():
    return {'oracle_selfcheck': dict(_SC)}


def catalogue():
    return {n: v for n, v in vars(gc).items() if type(v) is gc.Transformation}


def dated():
    return {n: v for n, v in catalogue().items() if isinstance(v.ref_epoch, datetime.date)}


def rate_sets():
    out = {}
    base = [0.05, -0.02, 0.03, 0.01, 0.02, -0.03, 0.01]
    DT, DS, DR = 0.01, 0.001, 0.5
    for bits in (0b0000000, 0b1111111, 0b1010101, 0b0101010, 0b1110000, 0b0001111, 0b1001001, 0b0110110):
        sg = [1 if bits >> i & 1 else -1 for i in range(7)]
        out['rate%03d' % bits] = base + [sg[0] * DT, sg[1] * DT, sg[2] * DT, sg[3] * DS, sg[4] * DR, sg[5] * DR, sg[6] * DR]
    out['ratezero'] = base + [0.0] * 7
    out['rateonly'] = [0.0] * 7 + [0.00142, 0.00134, 0.0009, 0.000109, 0.0015461, 0.001182, 0.0011551]
    out['intrates'] = [1, -2, 3, 1, 0, 0, 0, 1, 0, -1, 0, 1, -1, 0]       # Python ints
    # estimated / derived sets: small values carrying more than 8 decimals (a second-order round-trip bound of ~1e-7 m shows
    # any first-order residual, e.g. parameters of the negated set rounded to the catalogue's 8 decimals)
    out['fine1'] = [0.00123456789123, -0.00234567891234, 0.00345678912345, 0.000123456789123, 0.000234567891234, -0.000345678912345,
                    0.000456789123456, 1.23456789123e-4, -2.34567891234e-4, 3.45678912345e-4, 1.23456789123e-5, 2.34567891234e-5,
                    -3.45678912345e-5, 4.56789123456e-5]
    out['fine2'] = [1e-9 * v for v in (3, -7, 11, 2, 5, -3, 9)] + [4.9e-9, -5.1e-9, 1.49e-8, 5.5e-9, 4.4e-9, -9.9e-9, 1.234e-8]
    return out


def get_trans(spec):
    kind, name = spec
    if kind == 'const':
        return catalogue()[name]
    if kind == 'neg':
        return -catalogue()[name]
    if kind == 'copy':
        c = catalogue()[name]
        return gc.Transformation(c.from_datum, c.to_datum, c.ref_epoch, *[getattr(c, f) for f in ALLF], tf_sd=c.tf_sd)
    v = rate_sets()[name]
    return gc.Transformation('A', 'B', datetime.date(2010, 1, 1), *v)


def epochs(tier, seed):
    e = {datetime.date(1980, 1, 1), datetime.date(2060, 12, 31)}
    for v in dated().values():
        for d in (-1, 0, 1):
            e.add(v.ref_epoch + datetime.timedelta(days=d))
    for y in range(1980, 2061, 4):
        e.add(datetime.date(y, 2, 29))
    step = 1 if tier == 'thorough' else 3
    for y in range(1980, 2061, step):
        e.add(datetime.date(y, 1, 1))
    if tier == 'thorough':
        for y in range(1980, 2061):
            for m in range(2, 13):
                e.add(datetime.date(y, m, 1))
    # seed-shifted complete sub-lattice: one extra day-of-year per 5th year
    doy = int(((seed + 1) * 0.6180339887 % 1.0) * 364)
    for y in range(1981, 2060, 5):
        e.add(datetime.date(y, 1, 1) + datetime.timedelta(days=doy))
    return sorted(e)


def points():
    m = 1e7
    pts = [[sx * m, sy * m, sz * m] for sx in (1, -1) for sy in (1, -1) for sz in (1, -1)]
    pts += [[-4052051.7643, 4212836.2017, -2545106.0245], [6378137.0, 0.0, 0.0], [0.0, 0.0, -6356752.3], [0.0, 1e7, 0.0]]
    return pts


ALLF = FIELDS + ['d_' + f for f in FIELDS]
# import-time parameters of every shipped set (the oracle never re-reads an object that a call may have modified)
PRISTINE = {n: dict({f: om.dec_str(getattr(v, f)) for f in ALLF}, ref_epoch=v.ref_epoch) for n, v in catalogue().items()}


def spec_par(spec):
    """the 14 parameters + reference epoch a case refers to, from pristine data only"""
    kind, name = spec if isinstance(spec, (list, tuple)) else ('const', spec)
    if kind in ('const', 'copy'):
        return dict(PRISTINE[name])
    if kind == 'neg':
        d = {f: -PRISTINE[name][f] for f in ALLF}
        d['ref_epoch'] = PRISTINE[name]['ref_epoch']
        return d
    v = rate_sets()[name]
    d = {f: om.dec_str(x) for f, x in zip(ALLF, v)}
    d['ref_epoch'] = datetime.date(2010, 1, 1)
    return d


def advanced(spec, epoch):
    p = spec_par(spec)
    dt = F((epoch - p['ref_epoch']).days) / F('365.25')
    return {f: p[f] + p['d_' + f] * dt for f in FIELDS}, dt


def constants_intact(rec, one):
    for n, v in catalogue().items():
        for f in ALLF:
            if om.dec_str(getattr(v, f)) != PRISTINE[n][f]:
                rec.fail('a shipped parameter set was modified by a call (%s.%s)' % (n, f), site='transform:constant-modified',
                         observed=getattr(v, f), expected=float(PRISTINE[n][f]), case=one, coords={'set': n, 'field': f})
                return False
    return True


def gen_epoch(tier, seed):
    ep = [e.isoformat() for e in epochs(tier, seed)]
    for name in sorted(dated()):
        yield {'trans': ['const', name], 'epochs': ep}
    for name in ('itrf2014_to_gda2020', 'itrf2008_to_gda94', 'itrf2020_to_itrf93', 'itrf2000_to_itrf88'):
        yield {'trans': ['neg', name], 'epochs': ep}
    for name in sorted(rate_sets()):
        yield {'trans': ['lat', name], 'epochs': ep}


def ev_epoch(case, rec):
    t = get_trans(case['trans'])
    pts = points()
    for es in case['epochs']:
        e = datetime.date.fromisoformat(es)
        one = dict(case, epochs=[es])
        par, dt = advanced(case['trans'], e)
        s = abs(float(par['sc'])) * 1e-6
        theta = math.sqrt(sum(float(par[k]) ** 2 for k in ('rx', 'ry', 'rz'))) * math.pi / 648000
        tn = math.sqrt(sum(float(par[k]) ** 2 for k in ('tx', 'ty', 'tz')))
        co = {'trans': case['trans'][1], 'epoch': es, 'dt_years': float(dt)}
        for pt in pts:
            st, r = rec.call(conform14, pt[0], pt[1], pt[2], e, t)
            if st != 'ok':
                rec.fail('conform14 raised', site='transform:conform14', observed=r, case=one, coords=co)
                break
            rec.nontriv((tuple(case['trans']), es, tuple(pt)))
            rec.state(('c14', case['trans'][1], es) + tuple(float(v).hex() for v in r[:3]))
            exp = om.helmert_mp(pt, par)
            err = float(om.dist3(r[:3], exp))
            rec.dev('formula_m', err, one)
            if not (err <= 2e-6):
                rec.fail('conform14 differs from the 7-parameter formula with parameters advanced by rate x days/365.25',
                         site='transform:conform14:value', observed=list(r[:3]), expected=[float(v) for v in exp], tol=2e-6,
                         case=one, coords=dict(co, err=err, pt=pt))
                rec.outcome('bad')
                continue
            if e == spec_par(case['trans'])['ref_epoch']:
                st7, r7 = rec.call(conform7, pt[0], pt[1], pt[2], t)
                d7 = math.sqrt(sum((a - b) ** 2 for a, b in zip(r[:3], r7[:3])))
                # (the statement's tolerance: the re-referenced parameters are rounded to 8 decimals, worth up to ~3e-7 m at 1e7 m)
                if not (d7 <= 2e-6):
                    rec.fail('at the reference epoch conform14 does not reduce to conform7', site='transform:conform14:refepoch',
                             observed=list(r[:3]), expected=list(r7[:3]), tol=2e-6, case=one, coords=co)
            st, back = rec.call(conform14, r[0], r[1], r[2], e, -t)
            if st != 'ok':
                rec.fail('conform14 raised with the negated set', site='transform:conform14:neg', observed=back, case=one, coords=co)
                continue
            xn = math.sqrt(sum(v * v for v in pt))
            berr = math.sqrt(sum((a - b) ** 2 for a, b in zip(back[:3], pt)))
            bound = (s * s + theta * theta) * (xn + tn) + (s + theta + s * theta) * tn + 1e-7
            rec.dev('back_over_bound', berr / bound, one)
            if not (berr <= bound):
                rec.fail('set followed by its negation at the same epoch does not close within the second-order bound',
                         site='transform:conform14:roundtrip', observed=list(back[:3]), expected=pt, tol=bound, case=one,
                         coords=dict(co, err=berr))
                rec.outcome('bad')
            else:
                rec.outcome('ok')
    constants_intact(rec, dict(case, epochs=case['epochs'][:1]))
    rec.sample({'trans': case['trans'], 'epochs': case['epochs'][:3]})


# --- object identity: different sets built, used once and dropped, alternating at the same epoch -------------------
ID_SETS = ['itrf2014_to_gda2020', 'itrf2008_to_gda94', 'itrf2005_to_gda94', 'itrf2020_to_itrf2014', 'itrf2020_to_itrf93',
           'itrf2014_to_itrf2008', 'itrf2000_to_itrf88', 'gda94_to_itrf2000']


def gen_identity(tier, seed):
    for es in ('2030-01-01', '1985-07-01', '2020-01-01', '2000-02-29'):
        yield {'epoch': es, 'sets': ID_SETS}


def ev_identity(case, rec):
    e = datetime.date.fromisoformat(case['epoch'])
    pt = points()[8]
    for rnd in range(3):
        for kind in ('copy', 'neg'):
            for name in case['sets']:
                spec = [kind, name]
                # a temporary: built, used once, dropped -> CPython hands its address to the next one
                st, r = rec.call(lambda: conform14(pt[0], pt[1], pt[2], e, get_trans(spec)))
                one = {'epoch': case['epoch'], 'sets': [name], 'kind': kind}
                if st != 'ok':
                    rec.fail('conform14 raised on a temporary set', site='transform:conform14:temporary', observed=r, case=one)
                    continue
                rec.nontriv((case['epoch'], kind, name, rnd))
                rec.state(('id', name, kind) + tuple(float(v).hex() for v in r[:3]))
                par, dt = advanced(spec, e)
                err = float(om.dist3(r[:3], om.helmert_mp(pt, par)))
                if not (err <= 2e-6):
                    rec.fail('conform14 with a temporary parameter set does not use that set (stale state keyed on object identity?)',
                             site='transform:conform14:temporary', observed=list(r[:3]), tol=2e-6, case=one, coords={'err': err, 'round': rnd})
                    rec.outcome('identity-bad')
                else:
                    rec.outcome('identity-ok')
    rec.sample(case)


def gen_wrap(tier, seed):
    ep = [e.isoformat() for e in epochs(tier, seed)]
    for i in range(0, len(ep), 16):
        yield {'epochs': ep[i:i + 16]}


def ev_wrap(case, rec):
    apm = catalogue()['atrf2014_to_gda2020']
    for es in case['epochs']:
        e = datetime.date.fromisoformat(es)
        one = {'epochs': [es]}
        par, dt = advanced('atrf2014_to_gda2020', e)
        theta = math.sqrt(sum(float(par[k]) ** 2 for k in ('rx', 'ry', 'rz'))) * math.pi / 648000
        for pt in points():
            st, r = rec.call(transform_atrf2014_to_gda2020, pt[0], pt[1], pt[2], e)
            st2, q = rec.call(transform_gda2020_to_atrf2014, pt[0], pt[1], pt[2], e)
            if st != 'ok' or st2 != 'ok':
                rec.fail('ATRF wrapper raised', site='transform:atrf-wrappers', observed=[r, q], case=one)
                break
            rec.nontriv((es, tuple(pt)))
            rec.state(('w', es) + tuple(float(v).hex() for v in r[:3]))
            exp = om.helmert_mp(pt, par)
            err = float(om.dist3(r[:3], exp))
            if not (err <= 2e-6):
                rec.fail('transform_atrf2014_to_gda2020 is not the plate-motion set advanced to the epoch',
                         site='transform:atrf2014_to_gda2020:value', observed=list(r[:3]), expected=[float(v) for v in exp],
                         tol=2e-6, case=one, coords={'epoch': es, 'pt': pt})
            npar = {k: -v for k, v in par.items()}
            expq = om.helmert_mp(pt, npar)
            errq = float(om.dist3(q[:3], expq))
            if not (errq <= 2e-6):
                rec.fail('transform_gda2020_to_atrf2014 is not the negated plate-motion set advanced to the epoch',
                         site='transform:gda2020_to_atrf2014:value', observed=list(q[:3]), expected=[float(v) for v in expq],
                         tol=2e-6, case=one, coords={'epoch': es, 'pt': pt})
            xn = math.sqrt(sum(v * v for v in pt))
            bound = theta * theta * xn + 1e-7
            for name, f1, f2 in (('there-back', transform_atrf2014_to_gda2020, transform_gda2020_to_atrf2014),
                                 ('back-there', transform_gda2020_to_atrf2014, transform_atrf2014_to_gda2020)):
                a = f1(pt[0], pt[1], pt[2], e)
                b = f2(a[0], a[1], a[2], e)
                rec.transition(2)
                berr = math.sqrt(sum((u - v) ** 2 for u, v in zip(b[:3], pt)))
                rec.dev('wrapper_back_m', berr, one)
                if not (berr <= bound):
                    rec.fail('ATRF2014<->GDA2020 wrappers are not mutual inverses within the second-order bound',
                             site='transform:atrf-wrappers:roundtrip', observed=list(b[:3]), expected=pt, tol=bound, case=one,
                             coords={'epoch': es, 'order': name})
            if e == datetime.date(2020, 1, 1):
                if tuple(r[:3]) != tuple(float(v) for v in pt) or tuple(q[:3]) != tuple(float(v) for v in pt):
                    rec.fail('wrappers are not exactly the identity at epoch 2020.0', site='transform:atrf-wrappers:identity',
                             observed=[list(r[:3]), list(q[:3])], expected=pt, case=one)
                rec.outcome('identity')
        rec.outcome('ok')
    constants_intact(rec, case)
    rec.sample(case)


SD_FIELDS = ['sd_tx', 'sd_ty', 'sd_tz', 'sd_sc', 'sd_rx', 'sd_ry', 'sd_rz']


def gen_cov(tier, seed):
    names = [n for n, v in sorted(dated().items()) if type(v.tf_sd) is gc.TransformationSD and v.tf_sd.sd_d_tx is not None]
    ep = ['1994-01-01', '2000-02-29', '2020-01-01', '2030-01-01', '1985-07-01', '2060-12-31']
    for n in names:
        yield {'trans': n, 'epochs': ep}


def ev_cov(case, rec):
    t = catalogue()[case['trans']]
    pt = [-4052051.7643, 4212836.2017, -2545106.0245]
    mats = [np.diag([1e-4, 4e-4, 9e-4]), np.array([[2e-4, 1e-4, 0.0], [1e-4, 2e-4, 5e-5], [0.0, 5e-5, 1e-4]]), np.zeros((3, 3)),
            np.asfortranarray(np.array([[3e-4, 1e-4, 2e-5], [1e-4, 2e-4, 5e-5], [2e-5, 5e-5, 1e-4]]))]
    sd0 = {k: om.dec_str(getattr(t.tf_sd, k)) for k in SD_FIELDS}
    sdd = {k: om.dec_str(getattr(t.tf_sd, k.replace('sd_', 'sd_d_'))) for k in SD_FIELDS}
    for es in case['epochs']:
        e = datetime.date.fromisoformat(es)
        one = dict(case, epochs=[es])
        par, dt = advanced(case['trans'], e)
        with mp.workdps(40):
            sd = {k: mp.sqrt(om._m(sd0[k]) ** 2 + (om._m(sdd[k]) * om._m(dt)) ** 2) for k in SD_FIELDS}
        for mi, m in enumerate(mats):
            prev = None
            for rep in range(3):
                mb = m.tobytes()
                st, r = rec.call(conform14, pt[0], pt[1], pt[2], e, t, m)
                co = {'trans': case['trans'], 'epoch': es, 'repeat': rep}
                if m.tobytes() != mb:
                    rec.fail('conform14 modified the covariance array supplied by the caller', site='transform:conform14:vcv-argument',
                             observed=m, case=one, coords=co)
                if st != 'ok':
                    rec.fail('conform14 raised when a covariance was supplied', site='transform:conform14:vcv', observed=r,
                             case=one, coords=co)
                    break
                out = r[3]
                if not isinstance(out, np.ndarray) or out.shape != (3, 3):
                    rec.fail('no 3x3 covariance returned', site='transform:conform14:vcv-missing', observed=out, case=one, coords=co)
                    break
                rec.nontriv((case['trans'], es, mi, rep))
                rec.state(('cov', case['trans'], es, mi, out.tobytes().hex()[:48]))
                exp = om.helmert_cov_mp(pt, par, m.tolist(), sd)
                expf = np.array([[float(exp[i, j]) for j in range(3)] for i in range(3)])
                scale = max(float(np.max(np.abs(expf))), 1e-300)
                rel = float(np.max(np.abs(out - expf))) / scale
                rec.dev('cov_rel', rel, one)
                if not (rel <= 1e-7):
                    rec.fail('conform14 covariance differs from J Q J^T with the uncertainties advanced to the epoch',
                             site='transform:conform14:vcv-value', observed=out, expected=expf.tolist(), tol=1e-7, case=one,
                             coords=dict(co, rel=rel))
                    rec.outcome('cov-bad')
                else:
                    rec.outcome('cov-ok')
                if rep == 0 and mi < 2:
                    cfg.forms_agree(rec, lambda vf: conform14(pt[0], pt[1], pt[2], e, t, vf), m, r, 'transform:conform14:vcv', one, co, 'conform14')
                if prev is not None and prev != out.tobytes():
                    rec.fail('repeated identical conform14 calls return different covariances', site='transform:conform14:vcv-history',
                             observed=out, case=one, coords=co)
                prev = out.tobytes()
    rec.sample(case)


def gen_const(tier, seed):
    yield {'what': 'shipped parameter sets named by the property'}


def ev_const(case, rec):
    rec.transition()
    rec.nontriv()
    bad = cfg.published_trans_ok(['itrf2014_to_gda2020', 'atrf2014_to_gda2020'])
    rec.state(('constants', len(bad)))
    for n, f, got, exp in bad:
        rec.fail('shipped set %s does not carry its published value for %s' % (n, f), site='constants:%s:%s' % (n, f),
                 observed=got, expected=exp)
    rec.outcome('constants-ok' if not bad else 'constants-bad')
    rec.sample({'published': {k: cfg.PUBLISHED_TRANS[k] for k in ['itrf2014_to_gda2020', 'atrf2014_to_gda2020']}})


# --- two threads transforming at DIFFERENT epochs with DIFFERENT sets at the same time ----------
from gpmc import threads as _thr
import datetime as _dtm
import numpy as _tnp
import geodepy.constants as _tgc
import geodepy.transform as _tgt
import geodepy.convert as _tgv
import geodepy.geodesy as _tgg
import geodepy.statistics as _tgs
import geodepy.survey as _tsv
import geodepy.angles as _tga
_V1 = [[1e-4, 2e-5, -1e-5], [2e-5, 4e-4, 3e-5], [-1e-5, 3e-5, 9e-4]]
_V2 = [[9e-3, -2e-3, 1e-3], [-2e-3, 5e-3, 2e-3], [1e-3, 2e-3, 7e-3]]
T_CALLS = {
    'apm_2030': lambda: (lambda v=_tnp.array(_V1): _tgt.conform14(-4052051.7643, 4212836.2017, -2545106.0245, _dtm.date(2030, 1, 1), _tgc.itrf2014_to_gda2020, v)),
    'apm_rev_1985': lambda: (lambda v=_tnp.array(_V2): _tgt.conform14(-2389025.0, 5043317.0, -3078531.0, _dtm.date(1985, 7, 1), _tgc.gda2020_to_itrf2014, v)),
    'itrf08_2012': lambda: (lambda v=_tnp.array(_V2): _tgt.conform14(-4052051.7643, 4212836.2017, -2545106.0245, _dtm.date(2012, 2, 29), _tgc.itrf2008_to_gda94, v)),
    'itrf2020_88': lambda: (lambda: _tgt.conform14(4075539.9, 931735.3, 4801629.4, _dtm.date(1999, 12, 31), _tgc.itrf2020_to_itrf88)),
    'wrap_fwd_2018': lambda: (lambda v=_tnp.array(_V1): _tgt.transform_atrf2014_to_gda2020(-4052051.7643, 4212836.2017, -2545106.0245, _dtm.date(2018, 1, 1), v)),
    'wrap_rev_2041': lambda: (lambda v=_tnp.array(_V2): _tgt.transform_gda2020_to_atrf2014(-2389025.0, 5043317.0, -3078531.0, _dtm.date(2041, 6, 15), v)),
    'wrap_rev_2000': lambda: (lambda: _tgt.transform_gda2020_to_atrf2014(-4052051.7643, 4212836.2017, -2545106.0245, _dtm.date(2000, 1, 1))),
    'add_date': lambda: (lambda: _thr.cfg.flat(vars(_tgc.itrf2005_to_gda94 + _dtm.date(2030, 1, 1)))),
    'add_date_other': lambda: (lambda: _thr.cfg.flat(vars(_tgc.itrf2014_to_itrf2008 + _dtm.date(1985, 7, 1)))),
}
_tg, _te = _thr.make(T_CALLS, ['geodepy/transform.py', 'geodepy/constants.py'], 'transform:conform14:threads',
                     quick=['apm_2030', 'apm_rev_1985', 'wrap_fwd_2018', 'wrap_rev_2041', 'add_date', 'add_date_other'],
                     triple=('wrap_rev_2041', 'wrap_rev_2000', 'apm_2030'))


from gpmc import callforms as _cf


from gpmc import interp as _ip


SUBCHECKS = [
    Sub('constants', gen_const, ev_const, chunk=1, floor=1, parallel=False),
    Sub('epoch', gen_epoch, ev_epoch, chunk=2, floor=1000, guard=True, envs=1),
    Sub('identity', gen_identity, ev_identity, chunk=1, floor=100, guard=True, envs=1),
    Sub('wrappers', gen_wrap, ev_wrap, chunk=1, floor=200, guard=True, envs=1),
    Sub('covariance', gen_cov, ev_cov, chunk=1, floor=50, guard=True, envs=1),
    Sub('threads', _tg, _te, chunk=1, floor=3, poison=False, fresh=True, timeout=7200),
    Sub('callforms', *_cf.make('C07', 'transform'), chunk=1, floor=1, guard=True),
    Sub('interpreter', *_ip.make('C07', 'transform'), chunk=1, floor=5, poison=False),
]


def bounds(tier, seed):
    return {'dated_sets': len(dated()), 'rate_sets': len(rate_sets()), 'epochs': len(epochs(tier, seed)),
            'points': len(points()), 'depth': 2}
