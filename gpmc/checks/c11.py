"""C11 — the shipped transformation catalogue is labelled, reversible and self-consistent.

Finite space, enumerated completely:
  labels   : every Transformation constant of geodepy.constants
  reverse  : every name-derived forward/reverse pair
  triples  : every ordered triple (A->B, B->C, A->C) of un-suffixed ITRF sets
  iers     : iers2trans on a lattice of IERS-style tuples (units and sign)
  algebra  : explicit-state BFS of the object algebra {__neg__, __add__(epoch)} from every
             date-referenced constant, depth <= 3, epochs = every reference epoch in the catalogue
Oracle: exact rationals built from the decimal strings of the parameters, Julian year 365.25 d.
"""
import datetime
import re
from fractions import Fraction as F

import geodepy.constants as gc
from gpmc.core import Sub

PROPERTY = 'C11'
ASSUMPTIONS = [
    'frame names are taken from the variable name <from>_to_<to>[_suffix], case-normalised',
    'chain composition is first-order (parameters add), as the published tables are',
    'float parameters are read back through repr() as the decimal numbers that were typed',
]
FIELDS = ['tx', 'ty', 'tz', 'sc', 'rx', 'ry', 'rz']
RATES = ['d_' + f for f in FIELDS]
# published rounding: 0.15 mm, 0.015 ppb (= 1.5e-5 ppm), 0.015 mas (= 1.5e-5 arcsec), same per year
TOL = {'tx': F('0.00015'), 'ty': F('0.00015'), 'tz': F('0.00015'), 'sc': F('0.000015'),
       'rx': F('0.000015'), 'ry': F('0.000015'), 'rz': F('0.000015')}
NAME_RE = re.compile(r'^([a-z]+\d+)_to_([a-z]+\d+)(?:_(\w+))?$')


def catalogue():
    return {n: v for n, v in vars(gc).items() if type(v) is gc.Transformation}


def parse(name):
    m = NAME_RE.match(name)
    return m.groups() if m else None


def fr(x):
    return F(repr(float(x))) if isinstance(x, float) else F(x)


def params(t):
    return {f: fr(getattr(t, f)) for f in FIELDS + RATES}


def canon(t):
    return (str(t.from_datum), str(t.to_datum), str(t.ref_epoch)) + tuple(
        float(getattr(t, f)).hex() for f in FIELDS + RATES) + (id(t.tf_sd) if t.tf_sd is not None else None,)


def epochs():
    e = sorted({v.ref_epoch for v in catalogue().values() if isinstance(v.ref_epoch, datetime.date)})
    return e


# ---------------------------------------------------------------------------------------
def gen_labels(tier, seed):
    return sorted(catalogue())


def ev_labels(name, rec):
    t = catalogue()[name]
    rec.state(canon(t))
    p = parse(name)
    if p is None:
        rec.fail('constant name does not follow <from>_to_<to>[_suffix]', site='constants:' + name)
        return
    rec.nontriv()
    rec.transition()
    ok = str(t.from_datum).lower() == p[0] and str(t.to_datum).lower() == p[1]
    rec.outcome('ok' if ok else 'mislabelled')
    rec.sample({'name': name, 'from': t.from_datum, 'to': t.to_datum})
    if not ok:
        rec.fail('labels do not match the frames in the name', site='constants:' + name,
                 observed=[t.from_datum, t.to_datum], expected=[p[0].upper(), p[1].upper()])


def gen_reverse(tier, seed):
    cat = catalogue()
    out = []
    for n in sorted(cat):
        a, b, s = parse(n)
        rn = '%s_to_%s%s' % (b, a, '_' + s if s else '')
        if rn in cat and n < rn:
            out.append([n, rn])
    return out


def ev_reverse(case, rec):
    n, rn = case
    cat = catalogue()
    t, r = cat[n], cat[rn]
    rec.transition()
    rec.nontriv()
    rec.state(('pair', canon(t), canon(r)))
    bad = []
    for f in FIELDS + RATES:
        if fr(getattr(t, f)) != -fr(getattr(r, f)):
            bad.append((f, getattr(t, f), getattr(r, f)))
    if t.ref_epoch != r.ref_epoch:
        bad.append(('ref_epoch', str(t.ref_epoch), str(r.ref_epoch)))
    if (t.from_datum, t.to_datum) != (r.to_datum, r.from_datum):
        bad.append(('labels', [t.from_datum, t.to_datum], [r.from_datum, r.to_datum]))
    rec.outcome('ok' if not bad else 'bad')
    rec.sample({'pair': case})
    if bad:
        rec.fail('reverse constant is not the exact negation with same epoch and swapped labels',
                 site='constants:' + rn, observed=bad)


def gen_triples(tier, seed):
    cat = catalogue()
    S = sorted(n for n in cat if parse(n) and parse(n)[2] is None
               and parse(n)[0].startswith('itrf') and parse(n)[1].startswith('itrf'))
    out = []
    for n1 in S:
        a, b, _ = parse(n1)
        for n2 in S:
            b2, c, _ = parse(n2)
            if b2 != b or c == a:
                continue
            n3 = '%s_to_%s' % (a, c)
            if n3 in cat:
                out.append([n1, n2, n3])
    return out


def at_epoch(t, e):
    dt = F((e - t.ref_epoch).days) / F('365.25')
    p = params(t)
    return {f: p[f] + p['d_' + f] * dt for f in FIELDS}, {f: p['d_' + f] for f in FIELDS}


def ev_triples(case, rec):
    cat = catalogue()
    ab, bc, ac = (cat[n] for n in case)
    rec.transition(3)
    e = ac.ref_epoch
    if not all(isinstance(t.ref_epoch, datetime.date) for t in (ab, bc, ac)):
        rec.skip('non-date epoch')
        return
    rec.nontriv()
    p1, r1 = at_epoch(ab, e)
    p2, r2 = at_epoch(bc, e)
    pd, rd = at_epoch(ac, e)
    rec.state(('triple',) + tuple(case))
    bad = []
    for f in FIELDS:
        dp = p1[f] + p2[f] - pd[f]
        dr = r1[f] + r2[f] - rd[f]
        rec.dev('param_excess_over_tol', float(abs(dp) / TOL[f]))
        rec.dev('rate_excess_over_tol', float(abs(dr) / TOL[f]))
        if abs(dp) > TOL[f]:
            bad.append((f, float(dp)))
        if abs(dr) > TOL[f]:
            bad.append(('d_' + f, float(dr)))
    rec.outcome('ok' if not bad else 'inconsistent')
    rec.sample({'triple': case})
    if bad:
        rec.fail('chained parameters differ from the direct set beyond the published rounding',
                 site='constants:triple', observed=bad, tol='0.15mm/0.015ppb/0.015mas',
                 coords={'sets': case})


# IERS-style tuple lattice: units mm / ppb / mas, one non-zero entry at a time plus mixed rows
IERS_VALUES = [0.0, 0.1, -0.1, 1.4, -65.8, 0.36, -3.36, 1000.0, -0.00001, 12345.678]


def gen_iers(tier, seed):
    out = []
    for pos in range(14):
        for v in IERS_VALUES:
            row = [0.0] * 14
            row[pos] = v
            out.append(row)
    for k, v in enumerate(IERS_VALUES):
        out.append([IERS_VALUES[(k + j) % len(IERS_VALUES)] for j in range(14)])
        out.append([-IERS_VALUES[(k + 3 * j) % len(IERS_VALUES)] for j in range(14)])
    return out


def ev_iers(row, rec):
    ep = datetime.date(2015, 1, 1)
    st, t = rec.call(gc.iers2trans, 'ITRFxx', 'ITRFyy', ep, *row)
    if st != 'ok':
        rec.fail('iers2trans raised', site='constants:iers2trans', observed=t)
        return
    rec.nontriv()
    rec.state(canon(t))
    names = FIELDS + RATES
    bad = []
    for nme, v in zip(names, row):
        sign = -1 if nme.lstrip('d_')[0] == 'r' else 1
        exp = sign * F(repr(v)) / 1000
        got = fr(getattr(t, nme))
        if abs(got - exp) > F('0.5e-8') + F(1, 10**15):
            bad.append((nme, float(got), float(exp)))
    if (t.from_datum, t.to_datum, t.ref_epoch) != ('ITRFxx', 'ITRFyy', ep):
        bad.append(('labels/epoch', t.from_datum, t.to_datum, str(t.ref_epoch)))
    # reversal keeps the reference epoch in every form the documentation allows (a date, YYYY.DOY, a decimal year, an integer year, 0)
    for ep2 in (ep, 2010.001, 2015.5, 2010, 0, datetime.date(1988, 3, 1)):
        st2, t2 = rec.call(gc.iers2trans, 'ITRFxx', 'ITRFyy', ep2, *row)
        if st2 != 'ok':
            bad.append(('iers2trans raised for reference epoch %r' % (ep2,), repr(t2)))
            continue
        st3, n2 = rec.call(lambda: -t2)
        if st3 != 'ok' or n2.ref_epoch != ep2 or type(n2.ref_epoch) is not type(ep2) or (n2.from_datum, n2.to_datum) != ('ITRFyy', 'ITRFxx') \
                or any(fr(getattr(n2, f)) != -fr(getattr(t2, f)) for f in names):
            bad.append(('reverse of a set with reference epoch %r' % (ep2,), repr(getattr(n2, 'ref_epoch', n2))))
    # the frame labels are names, not inputs of the unit conversion: the same numbers under every label that occurs in the shipped
    # catalogue (either side), under lower-case / empty labels
    labels = sorted({str(getattr(v, a)) for v in catalogue().values() for a in ('from_datum', 'to_datum')}) + ['', 'itrf2000', 'ITRF 2000', 'xx']
    for lab in labels:
        for fr_, to_ in ((lab, 'ITRFyy'), ('ITRFxx', lab), (lab, lab)):
            st4, t4 = rec.call(gc.iers2trans, fr_, to_, ep, *row)
            if st4 != 'ok' or any(getattr(t4, f) != getattr(t, f) for f in names) or (t4.from_datum, t4.to_datum) != (fr_, to_):
                bad.append(('labels %r -> %r change the stored numbers' % (fr_, to_), repr(t4)[:200]))
                break
    rec.outcome('ok' if not bad else 'bad')
    rec.sample({'iers_row': row})
    if bad:
        rec.fail('iers2trans does not store metres/ppm/arcsec with reversed rotation signs',
                 site='constants:iers2trans', observed=bad)


# --- explicit-state search of the object algebra -------------------------------------------
def gen_algebra(tier, seed):
    cat = catalogue()
    return sorted(n for n, v in cat.items() if isinstance(v.ref_epoch, datetime.date))


def ev_algebra(name, rec):
    depth = 3
    eps = epochs()
    # ... and epochs that are NOT reference epochs of the catalogue: days, months and just under / over a year away from this
    # set's own reference epoch, before and after (depth 1 only: they multiply the reachable set)
    near = [t_ + datetime.timedelta(days=d) for t_ in [catalogue()[name].ref_epoch] for d in (-366, -365, -364, -100, -1, 1, 59, 200, 364, 365, 366, 800)]
    # a private deep copy so that the shared constant is never the object being explored
    t0 = catalogue()[name]
    init = gc.Transformation(t0.from_datum, t0.to_datum, t0.ref_epoch, *[getattr(t0, f) for f in FIELDS + RATES],
                             tf_sd=None)
    seen = {canon(init)}
    frontier = [(init, params(init), 0)]
    rec.nontriv()
    while frontier:
        t, exact, d = frontier.pop(0)
        if d >= depth:
            continue
        ops = [('neg', None)] + [('add', e) for e in eps] + ([('add', e) for e in near] if d == 0 else [])
        for op, e in ops:
            if op == 'neg':
                st, u = rec.call(lambda: -t)
            else:
                st, u = rec.call(lambda: t + e)
            if st != 'ok' or type(u) is not gc.Transformation:
                rec.fail('operator %s failed on a date-referenced set' % op, site='Transformation.__%s__' % op,
                         observed=u, coords={'set': name, 'op': op})
                continue
            if op == 'neg':
                okl = (u.from_datum, u.to_datum) == (t.to_datum, t.from_datum)
                okp = all(fr(getattr(u, f)) == -fr(getattr(t, f)) for f in FIELDS + RATES)
                oke = u.ref_epoch == t.ref_epoch
                if not (okl and okp and oke):
                    rec.fail('negation must swap labels, negate all 14 parameters and keep the epoch',
                             site='Transformation.__neg__', observed=[u.from_datum, u.to_datum, str(u.ref_epoch)],
                             expected=[t.to_datum, t.from_datum, str(t.ref_epoch)], coords={'set': name})
            else:
                okl = (u.from_datum, u.to_datum) == (t.from_datum, t.to_datum)
                if not okl:
                    rec.fail('re-referencing to another epoch must keep the direction labels',
                             site='Transformation.__add__:labels', observed=[u.from_datum, u.to_datum],
                             expected=[t.from_datum, t.to_datum], coords={'set': name, 'epoch': str(e)})
                if not all(fr(getattr(u, f)) == fr(getattr(t, f)) for f in RATES):
                    rec.fail('re-referencing must keep the rates', site='Transformation.__add__:rates',
                             observed=[getattr(u, f) for f in RATES], expected=[getattr(t, f) for f in RATES],
                             coords={'set': name, 'epoch': str(e)})
                if u.ref_epoch != e:
                    rec.fail('re-referenced set must carry the new epoch', site='Transformation.__add__:epoch',
                             observed=str(u.ref_epoch), expected=str(e), coords={'set': name})
                dt = F((e - t.ref_epoch).days) / F('365.25')
                pt = params(t)
                for f in FIELDS:
                    exp = pt[f] + pt['d_' + f] * dt
                    got = fr(getattr(u, f))
                    # the result is rounded to 8 decimals: half a unit + float slack
                    if abs(got - exp) > F('0.5e-8') + F(1, 10**13):
                        rec.fail('parameter not advanced by rate x days/365.25', site='Transformation.__add__:value',
                                 observed=float(got), expected=float(exp), tol='0.5e-8',
                                 coords={'set': name, 'field': f, 'epoch': str(e), 'from': str(t.ref_epoch)})
            k = canon(u)
            rec.state(k)
            if k not in seen:
                seen.add(k)
                frontier.append((u, None, d + 1))
    # the statements a user writes on the shipped constant ITSELF: `x = const; x += date` (augmented assignment must rebind x,
    # not rewrite the constant), `x = const + date`, `x = -const`; afterwards the constant is what it was
    before = (canon(t0), t0.from_datum, t0.to_datum, t0.ref_epoch, id(t0.tf_sd))
    for e in eps:
        for stmt in ('iadd', 'add', 'neg', 'radd'):
            x = t0
            try:
                if stmt == 'iadd':
                    x += e
                elif stmt == 'add':
                    x = x + e
                elif stmt == 'radd':
                    try:
                        x = e + x
                    except TypeError:
                        x = None
                else:
                    x = -x
            except Exception as ex:
                rec.fail('statement on a shipped constant raised', site='Transformation:statement:' + stmt, observed=ex, coords={'set': name})
                continue
            rec.transition()
            now = (canon(t0), t0.from_datum, t0.to_datum, t0.ref_epoch, id(t0.tf_sd))
            if now != before:
                rec.fail('a statement on a shipped constant (%s) changed the constant itself' % stmt, site='Transformation:statement:' + stmt,
                         observed=[t0.from_datum, t0.to_datum, str(t0.ref_epoch)], expected=[before[1], before[2], str(before[3])],
                         coords={'set': name, 'epoch': str(e), 'stmt': stmt})
                rec.outcome('constant-changed')
                return
            if stmt in ('iadd', 'add') and (x is t0 or x.ref_epoch != e or (x.from_datum, x.to_datum) != (t0.from_datum, t0.to_datum)):
                rec.fail('const %s date does not give a new set at that epoch with the same labels' % ('+=' if stmt == 'iadd' else '+'),
                         site='Transformation:statement:' + stmt, observed=[x is t0, str(x.ref_epoch), x.from_datum, x.to_datum],
                         coords={'set': name, 'epoch': str(e)})
    rec.outcome('states=%d' % len(seen))
    rec.sample({'set': name, 'reachable_states_depth3': len(seen)})


# --- two threads re-referencing / negating DIFFERENT sets at the same time ----------
from gpmc import threads as _thr
import datetime as _dtm
import numpy as _tnp
import geodepy.constants as _tgc
import geodepy.transform as _tgt
import geodepy.convert as _tgv
import geodepy.geodesy as _tgg
import geodepy.statistics as _tgs
import geodepy.survey as _tsv
import geodepy.angles as _tga
_V1 = [[1e-4, 2e-5, -1e-5], [2e-5, 4e-4, 3e-5], [-1e-5, 3e-5, 9e-4]]
_V2 = [[9e-3, -2e-3, 1e-3], [-2e-3, 5e-3, 2e-3], [1e-3, 2e-3, 7e-3]]
def _tv(t):
    return [t.from_datum, t.to_datum, str(t.ref_epoch)] + [getattr(t, f) for f in FIELDS + RATES] + \
        ([sorted(vars(t.tf_sd).items())] if t.tf_sd is not None and hasattr(t.tf_sd, '__dict__') else [repr(t.tf_sd)])


T_CALLS = {
    'add_itrf05_2030': lambda: (lambda: _tv(_tgc.itrf2005_to_gda94 + _dtm.date(2030, 1, 1))),
    'add_itrf14_08_1985': lambda: (lambda: _tv(_tgc.itrf2014_to_itrf2008 + _dtm.date(1985, 7, 1))),
    'add_apm_2000': lambda: (lambda: _tv(_tgc.atrf2014_to_gda2020 + _dtm.date(2000, 2, 29))),
    'add_itrf2020_88': lambda: (lambda: _tv(_tgc.itrf2020_to_itrf88 + _dtm.date(2010, 1, 1))),
    'neg_itrf08': lambda: (lambda: _tv(-_tgc.itrf2008_to_gda94)),
    'neg_itrf97': lambda: (lambda: _tv(-_tgc.itrf97_to_gda94)),
    'iers': lambda: (lambda: _tv(_tgc.iers2trans('ITRF2020', 'ITRF2008', _dtm.date(2015, 1, 1), 0.2, 1.0, 3.3, -0.29, 0.01, -0.02, 0.03,
                                                   0.0, -0.1, 0.1, 0.03, 0.001, 0.002, -0.003))),
}
_tg, _te = _thr.make(T_CALLS, ['geodepy/constants.py'], 'Transformation:threads',
                     quick=['add_itrf05_2030', 'add_itrf14_08_1985', 'add_apm_2000', 'neg_itrf08'], triple=('add_itrf05_2030', 'add_apm_2000', 'neg_itrf97'))


from gpmc import callforms as _cf


from gpmc import interp as _ip


SUBCHECKS = [
    Sub('labels', gen_labels, ev_labels, chunk=500, floor=100, parallel=False, guard=True),
    Sub('reverse', gen_reverse, ev_reverse, chunk=500, floor=50, parallel=False, guard=True),
    Sub('triples', gen_triples, ev_triples, chunk=64, floor=300, guard=True, envs=4),
    Sub('iers', gen_iers, ev_iers, chunk=500, floor=100, parallel=False, guard=True),
    Sub('algebra', gen_algebra, ev_algebra, chunk=4, floor=90, guard=True, envs=2),
    Sub('threads', _tg, _te, chunk=1, floor=3, poison=False, fresh=True, timeout=7200),
    Sub('callforms', *_cf.make('C11', 'constants'), chunk=1, floor=1, guard=True),
    Sub('interpreter', *_ip.make('C11', 'constants'), chunk=1, floor=5, poison=False),
]


def bounds(tier, seed):
    return {'constants': len(catalogue()), 'pairs': len(gen_reverse(tier, seed)),
            'triples': len(gen_triples(tier, seed)), 'epochs': [str(e) for e in epochs()],
            'algebra_depth': 3, 'iers_rows': len(gen_iers(tier, seed))}
