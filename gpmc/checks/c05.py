"""C05 — Vincenty inverse solution is exact, symmetric and longitude-shift invariant.

Space: all ordered pairs of a point lattice (poles, equator +-1e-9, antimeridian +-1e-6, 1 mm neighbours,
regular fill) with spherical separation <= 178 deg, x ellipsoids; for every pair the derived operations
swap and common longitude offset in {+14, -90, +360, -360} (depth 2).
Oracle: the returned (distance, azimuth) is fed to the exact DIRECT geodesic (oracle_geod) and must arrive
within 2 mm of point 2; the reverse azimuth is compared with the oracle's azimuth at point 2; azimuth
changes are weighed with the reduced length obtained by differencing the oracle.
"""
import math

import numpy as np

from geodepy.geodesy import vincinv
from gpmc import cfg, oracle_geod as og
from gpmc.cfg import ELLS, ELL_AF, uniq, fill
from gpmc.core import Sub, HarnessError

PROPERTY = 'C05'
ASSUMPTIONS = [
    'exact geodesic (direct problem) by quadrature of the auxiliary-sphere integrals, validated at run time against 34-digit mpmath',
    'reduced length m12 obtained by differencing the oracle (end-point displacement per radian of start azimuth)',
    'antipodal exclusion evaluated on the auxiliary sphere of the geographic coordinates (separation <= 178 deg)',
    'points (lat, -180) and (lat, 180) are the same position and count as coincident',
    'continuum decided on a lattice (structural points + regular fill + seed-shifted fill)',
]
OFFSETS = [14.0, -90.0, 360.0, -360.0]
_SC = {}


def prepare(tier, seed):
    sc = og.selfcheck()
    _SC.update(sc)
    if not sc['ok']:
        raise HarnessError('geodesic oracle self-check failed: %r' % sc)


def evidence_extra():
    return {'oracle_selfcheck': dict(_SC)}


def points(tier, seed):
    lats = uniq([-90.0, -89.0, -60.0, -30.0, -1e-9, 0.0, 1e-9, 30.0, 30.00000001, 60.0, 89.0, 90.0] +
                fill(-75.0, 75.0, 37.5 if tier == 'quick' else 12.5, seed, 31))
    lons = uniq([-180.0, -179.999999, -90.0, 0.0, 10.0, 10.00000001, 10.00001, 90.0, 179.999999, 180.0] +
                fill(-150.0, 150.0, 100.0 if tier == 'quick' else 33.0, seed, 32))
    return [(la, lo) for la in lats for lo in lons]


def sph_sep(p, q):
    a1, b1, a2, b2 = map(math.radians, (p[0], p[1], q[0], q[1]))
    h = math.sin((a2 - a1) / 2) ** 2 + math.cos(a1) * math.cos(a2) * math.sin((b2 - b1) / 2) ** 2
    return math.degrees(2 * math.asin(min(1.0, math.sqrt(h))))


def gen(tier, seed):
    pts = points(tier, seed)
    ells = cfg.G8 if tier == 'thorough' else ['grs80', 'wgs84', 'ans', 'intl24', 'g63_280', 'g64_320', 'grs80_a3mm']
    for ell in ells:
        for p in pts:
            yield {'ell': ell, 'p1': list(p), 'p2s': [list(q) for q in pts if sph_sep(p, q) <= 178.0]}


def gen_bands(tier, seed):
    """two narrow bands no regular lattice resolves: (a) both end points within a degree of the equator at decade / 1-2-5 steps,
    long lines (the geodesic there is dominated by the equatorial terms of the series); (b) end points whose longitudes
    differ by 1e-9 .. 1e-6 deg in 1-2-5 steps (and by the 0.0001" resolution of HP notation) at any difference in latitude"""
    ells = ['grs80', 'intl24', 'g63_280'] if tier == 'quick' else cfg.G8
    small = [1e-6, 1e-4, 1e-3, 0.005, 0.01, 0.02, 0.03, 0.05, 0.07, 0.1, 0.3, 1.0]
    for ell in ells:
        for la1 in small:
            for s1 in (1, -1):
                yield {'ell': ell, 'p1': [s1 * la1, 0.0], 'p2s': [[s2 * la2, dl] for la2 in small for s2 in (1, -1) for dl in (30.0, 90.0, 150.0, 177.0)]}
        dls = [1e-9, 2e-9, 5e-9, 1e-8, 1.5e-8, 2e-8, 2.5e-8, 0.0001 / 3600, 3e-8, 5e-8, 1e-7, 2e-7, 5e-7, 1e-6]
        for la1 in (0.0, -10.0, 33.0, -48.0, 60.0, 85.0):
            yield {'ell': ell, 'p1': [la1, 100.0], 'p2s': [[la1 + dla, 100.0 + sg * dl] for dl in dls for sg in (1, -1)
                                                          for dla in (3e-8, -3e-8, 1e-5, 0.01, -1.0, 30.0 if la1 < 50 else -30.0)]}


    # (c) far pairs (separation 170 .. 178 deg) WRITTEN ACROSS the 180-degree meridian: the raw longitude difference exceeds 180 deg in
    # magnitude although the points are less than half a turn apart (and the same pairs written without the jump)
    for ell in ells:
        for la1 in (-40.0, -10.0, 0.0, 25.0, 50.0):
            for lo1 in (95.0, 120.0, 170.0, -100.0):
                p2s = []
                for dtrue in (170.0, 174.5, 176.0, 177.0, 177.8):
                    for dla in (0.8, -1.5, 3.0):
                        for sg in (1, -1):
                            lon2 = lo1 + sg * dtrue
                            lon2w = lon2 - 360.0 if lon2 > 180.0 else lon2 + 360.0 if lon2 < -180.0 else lon2
                            for l2 in {lon2, lon2w}:
                                if sph_sep((la1, lo1), (-la1 + dla, l2)) <= 178.0:
                                    p2s.append([-la1 + dla, l2])
                yield {'ell': ell, 'p1': [la1, lo1], 'p2s': p2s}


def angdiff(a, b):
    return abs((a - b + 180.0) % 360.0 - 180.0)


def same_position(p, q):
    if abs(p[0]) == 90.0 and p[0] == q[0]:
        return True
    return p[0] == q[0] and (p[1] - q[1]) % 360.0 == 0.0


def ev(case, rec):
    ell = case['ell']
    E = cfg.ell_obj(ell)
    a, invf = ELL_AF[ell]
    p1 = case['p1']
    rows = []
    for p2 in case['p2s']:
        one = dict(case, p2s=[p2])
        co = {'ell': ell, 'p1': p1, 'p2': p2, 'sep_deg': sph_sep(p1, p2)}
        st, r = rec.call(vincinv, p1[0], p1[1], p2[0], p2[1], E)
        if st != 'ok':
            rec.fail('vincinv raised on a valid pair', site='geodesy:vincinv', observed=r, case=one, coords=co)
            rec.outcome('raise')
            continue
        s, a12, a21 = r
        rec.state((ell,) + tuple(float(v).hex() for v in r))
        rec.nontriv((ell, tuple(p1), tuple(p2)))
        if same_position(p1, p2):
            if s != 0:
                rec.fail('coincident points do not return zero distance', site='geodesy:vincinv:coincident', observed=list(r),
                         expected=0, case=one, coords=co)
            rec.outcome('coincident')
            continue
        rows.append((p2, one, co, s, a12, a21))
    if not rows:
        return
    S = np.array([x[3] for x in rows], float)
    A12 = np.array([x[4] for x in rows], float)
    o_lat, o_lon, o_az2, _ = og.direct_np(p1[0], p1[1], A12, S, a, invf)
    m12 = og.reduced_length_np(p1[0], p1[1], A12, S, a, invf)
    P2lat = np.array([x[0][0] for x in rows])
    P2lon = np.array([x[0][1] for x in rows])
    miss = og.chord_np(o_lat, o_lon, P2lat, P2lon, a, invf)
    for j, (p2, one, co, s, a12, a21) in enumerate(rows):
        bad = False
        rec.dev('arrival_m', float(miss[j]), one)
        if not (miss[j] <= 2e-3):
            bad = True
            rec.fail('following the exact geodesic with the returned distance and azimuth misses point 2 by more than 2 mm',
                     site='geodesy:vincinv:arrival', observed=[s, a12], expected='arrive within 2 mm; missed by %.6f m' % miss[j],
                     tol=2e-3, case=one, coords=dict(co, miss=float(miss[j])))
        # reverse azimuth
        pd = float(og.pole_dist_m(p2[0], a))
        if pd > 1.0 and abs(p1[0]) < 90.0:
            tol = 1e-8 + math.degrees(2e-3 / pd)
            da = angdiff(a21, (float(o_az2[j]) + 180.0) % 360.0)
            rec.dev('rev_az_over_tol', da / tol, one)
            if not (da <= tol):
                bad = True
                rec.fail('reverse azimuth differs from the exact geodesic azimuth at point 2 (+180)', site='geodesy:vincinv:reverse',
                         observed=a21, expected=(float(o_az2[j]) + 180.0) % 360.0, tol=tol, case=one,
                         coords=dict(co, err=da, dist_m=float(s), disp_m=math.radians(da) * float(s)))
        # derived operations (depth 2): swap, common longitude offset
        mm = max(float(m12[j]), 1e-6)
        tol_az = math.degrees(1e-3 / mm) + 1.5e-9      # 1 mm at the far end + the 1e-9 deg output rounding
        st, rs = rec.call(vincinv, p2[0], p2[1], p1[0], p1[1], E)
        if st != 'ok':
            bad = True
            rec.fail('vincinv raised on the swapped pair', site='geodesy:vincinv:swap', observed=rs, case=one, coords=co)
        else:
            polar = abs(p1[0]) == 90.0 or abs(p2[0]) == 90.0
            ds = abs(rs[0] - s)
            d1 = 0.0 if polar else angdiff(rs[1], a21)
            d2 = 0.0 if polar else angdiff(rs[2], a12)
            rec.dev('swap_ds_m', ds, one)
            rec.dev('swap_az_over_tol', max(d1, d2) / tol_az, one)
            if ds > 1e-3 + 1e-9 or d1 > tol_az or d2 > tol_az:
                bad = True
                rec.fail('swapping the two points changes the solution beyond 1 mm', site='geodesy:vincinv:swap',
                         observed=list(rs), expected=[s, a21, a12], tol=[1e-3, tol_az], case=one, coords=co)
        for off in OFFSETS:
            st, ro = rec.call(vincinv, p1[0], p1[1] + off, p2[0], p2[1] + off, E)
            if st != 'ok':
                bad = True
                rec.fail('vincinv raised after adding a common longitude offset', site='geodesy:vincinv:offset', observed=ro,
                         case=one, coords=dict(co, offset=off))
                continue
            ds = abs(ro[0] - s)
            d1, d2 = angdiff(ro[1], a12), angdiff(ro[2], a21)
            if abs(p1[0]) == 90.0 or abs(p2[0]) == 90.0:
                # at a pole the azimuth is defined relative to the (shifted) meridian; only the distance is compared
                d1 = d2 = 0.0
            rec.dev('offset_ds_m', ds, one)
            rec.dev('offset_az_over_tol', max(d1, d2) / tol_az, one)
            if ds > 1e-3 + 1e-9 or d1 > tol_az or d2 > tol_az:
                bad = True
                rec.fail('a common longitude offset changes the solution beyond 1 mm', site='geodesy:vincinv:offset',
                         observed=list(ro), expected=[s, a12, a21], tol=[1e-3, tol_az], case=one, coords=dict(co, offset=off))
        rec.outcome('bad' if bad else 'ok')
    rec.sample({'case': dict(case, p2s=case['p2s'][:2])})


def gen_types(tier, seed):
    for ell in ('grs80', 'intl24'):
        for kind in cfg.INTYPES[1:] + cfg.NUMFORMS + ['exactforms']:
            yield {'ell': ell, 'kind': kind}


TYPE_PTS = [(-37.95103342, 144.42486789), (-37.65282114, 143.92649553), (0.3, -0.15), (-0.5, 179.75), (45.5, -73.25), (12.0, 12.0),
            (90.0, 30.0), (-90.0, -0.15), (0.0, 0.0), (-45.0, 180.0)]


def ev_types(case, rec):
    E = cfg.ell_obj(case['ell'])
    k = case['kind']
    if k == 'exactforms':
        # whole-degree end points in every exact numeric spelling (ints, numpy integers of every width, numpy floats)
        ipts = [(-37.0, 144.0), (10.0, -170.0), (0.0, 0.0), (45.0, 90.0), (-12.0, 12.0), (89.0, -1.0), (1.0, 127.0)]
        for p1 in ipts:
            for p2 in ipts:
                if p1 == p2:
                    continue
                st, base = rec.call(vincinv, p1[0], p1[1], p2[0], p2[1], E)
                if st != 'ok':
                    rec.fail('vincinv raised', site='geodesy:vincinv', observed=base, case=dict(case, p1=list(p1), p2=list(p2)))
                    continue
                rec.nontriv((case['ell'], k, p1, p2))
                ok = cfg.scalar_forms_agree(rec, lambda a, b, c, d: vincinv(a, b, c, d, E), [p1[0], p1[1], p2[0], p2[1]], [0, 1, 2, 3], base,
                                            'geodesy:vincinv', dict(case, p1=list(p1), p2=list(p2)), {'kind': k}, 'vincinv')
                rec.outcome('forms-ok' if ok else 'forms-bad')
        rec.sample(case)
        return
    for p1 in TYPE_PTS:
        for p2 in TYPE_PTS:
            try:
                o = [cfg.as_type(v, k) for v in (p1[0], p1[1], p2[0], p2[1])]
            except Exception:
                rec.skip('input object could not be built (C08)')
                continue
            f = [x.dec() for x in o]
            u = [cfg.unwrap(x) for x in o]
            st, r = rec.call(vincinv, u[0], u[1], u[2], u[3], E)
            st2, r2 = rec.call(vincinv, f[0], f[1], f[2], f[3], E)
            # mixed form: first point as objects, second as floats
            st3, r3 = rec.call(vincinv, u[0], u[1], f[2], f[3], E)
            rec.nontriv((case['ell'], k, p1, p2))
            if st != 'ok' or st2 != 'ok' or st3 != 'ok' or tuple(r) != tuple(r2) or tuple(r3) != tuple(r2):
                rec.fail('angle-class arguments give a different inverse solution from their decimal-degree values',
                         site='geodesy:vincinv:intype', observed=[r, r3], expected=r2, case=dict(case, p1=list(p1), p2=list(p2)),
                         coords={'kind': k})
                continue
            # the objects denote the lattice values in their own notation (100 gon IS the pole): the solution is the solution for
            # those values (judged against the exact geodesic by the float lattice)
            st0, r0 = rec.call(vincinv, p1[0], p1[1], p2[0], p2[1], E)
            polar = abs(p1[0]) == 90.0 or abs(p2[0]) == 90.0
            if k != 'np32' and st0 == 'ok' and (abs(r[0] - r0[0]) > 2e-3 or (not polar and r0[0] > 1.0 and (
                    cfg.angdiff(r[1], r0[1]) > 1e-6 or cfg.angdiff(r[2], r0[2]) > 1e-6))):
                rec.fail('angle objects that denote the values %r, %r in their own notation give a different inverse solution from those values' % (p1, p2),
                         site='geodesy:vincinv:intype-value', observed=list(r), expected=list(r0), case=dict(case, p1=list(p1), p2=list(p2)),
                         coords={'kind': k})
            else:
                rec.outcome('intype-ok')
    rec.sample(case)


# --- two threads solving DIFFERENT inverse problems on DIFFERENT ellipsoids at the same time ----------
from gpmc import threads as _thr
import numpy as _tnp
import geodepy.constants as _tgc
import geodepy.convert as _tgv
import geodepy.geodesy as _tgg
import geodepy.angles as _tga
T_CALLS = {
    'grs80': lambda: (lambda: _tgg.vincinv(-37.95103342, 144.42486789, -37.65282114, 143.92649553)),
    'ans_antimeridian': lambda: (lambda: _tgg.vincinv(10.0, 179.5, -12.0, -179.5, _tgc.ans)),
    'intl_long': lambda: (lambda: _tgg.vincinv(-30.0, 0.0, 40.0, 120.0, _tgc.intl24)),
    'coincident': lambda: (lambda: _tgg.vincinv(12.0, 12.0, 12.0, 12.0)),
}
_tg, _te = _thr.make(T_CALLS, ['geodepy/geodesy.py'], 'geodesy:vincinv:threads', quick=['grs80', 'ans_antimeridian', 'intl_long'],
                     triple=('grs80', 'intl_long', 'coincident'))


from gpmc import callforms as _cf


from gpmc import interp as _ip


from gpmc import manyobj as _mo
SUBCHECKS = [Sub('inverse', gen, ev, chunk=2, floor=1000, envs=8), Sub('bands', gen_bands, ev, chunk=2, floor=500), Sub('types', gen_types, ev_types, chunk=1, floor=100, envs=2), Sub('threads', _tg, _te, chunk=1, floor=3, poison=False, fresh=True, timeout=7200), Sub('many_objects', *_mo.make('C05', 'geodesy'), chunk=1, floor=3, poison=False, fresh=True, timeout=7200), Sub('callforms', *_cf.make('C05', 'geodesy'), chunk=1, floor=1, guard=True), Sub('interpreter', *_ip.make('C05', 'geodesy'), chunk=1, floor=5, poison=False)]


def bounds(tier, seed):
    return {'points': len(points(tier, seed)), 'offsets': OFFSETS, 'depth': 2, 'max_separation_deg': 178.0,
            'tolerances': {'arrival_m': 2e-3, 'ds_m': 1e-3, 'azimuth': '1 mm / m12'}}
