"""C10 — point scale factor and grid convergence belong to the projection actually used.

Every C01 state (forward) and its image under grid2geo (inverse), for every (ellipsoid, projection)
configuration, all four quadrants about equator and central meridian, |lon - CM| <= 30 deg.
Oracle: k = |dz/dzeta| / (nu cos phi), gamma = arg(dz/dzeta) of the exact projection (oracle_tm); the sign
convention "grid bearing = azimuth + gamma" is validated against a finite difference of the oracle's own
image of the meridian in prepare().
"""
import numpy as np

from geodepy.convert import geo2grid, grid2geo
from gpmc import cfg, oracle_tm, tmcommon
from gpmc.cfg import ELLS, PRJS, ELL_AF, PRJ_PAR
from gpmc.core import Sub, HarnessError

PROPERTY = 'C10'
TOL_K = 2e-8
TOL_G = 1e-9
ASSUMPTIONS = [
    'k and gamma of the exact projection evaluated in float64 (agreement with 34-digit mpmath < 1e-13 / 1e-12 deg at run time)',
    'forward and inverse are compared at the same point: grid2geo at (E,N) against geo2grid at exactly the latitude/longitude grid2geo returned',
    'continuum decided on a lattice (structural boundaries + regular fill + seed-shifted fill)',
]
_SC = {}


def prepare(tier, seed):
    sc = oracle_tm.selfcheck()
    _SC.update(sc)
    if not sc['ok']:
        raise HarnessError('TM oracle self-check failed: %r' % sc)


def evidence_extra():
    return {'oracle_selfcheck': dict(_SC)}


def ev_row(case, rec):
    res, idx = tmcommon.forward_row(case, rec)
    ell, prj = cfg.ell_obj(case['ell']), PRJS[case['prj']]
    a, invf = ELL_AF[case['ell']]
    fe, fn, k0, zw, icm = PRJ_PAR[case['prj']]
    lat = case['lat']
    inv = []
    for d in res:
        if d is None:
            continue
        one = tmcommon.single(case, d['lon'])
        co = {'lat': lat, 'lon': d['lon'], 'ell': case['ell'], 'prj': case['prj'], 'zone': d['zone'],
              'quadrant': ('S' if lat < 0 else 'N') + ('W' if d['lonf'] < d['cm'] else 'E')}
        rec.nontriv((case['ell'], case['prj'], case['zone'], lat, d['lon']))
        rec.state((case['ell'], case['prj'], d['zone'], float(d['psf']).hex(), float(d['gc']).hex()))
        dk, dg = abs(d['psf'] - d['o_k']), abs(d['gc'] - d['o_g'])
        rec.dev('fwd_k', dk, one)
        rec.dev('fwd_gamma_deg', dg, one)
        bad = False
        if dk > TOL_K or dk != dk:
            bad = True
            rec.fail('forward point scale factor is not that of the requested projection/ellipsoid',
                     site='convert:geo2grid:psf', observed=d['psf'], expected=d['o_k'], tol=TOL_K, case=one, coords=co)
        if dg > TOL_G or dg != dg:
            bad = True
            rec.fail('forward grid convergence differs from the exact projection (sign: grid bearing = azimuth + gamma)',
                     site='convert:geo2grid:gridconv', observed=d['gc'], expected=d['o_g'], tol=TOL_G, case=one, coords=co)
        rec.outcome(('bad-' if bad else 'ok-') + co['quadrant'])
        if not (-2830000 <= d['east'] <= 3830000 and 0 <= d['north'] <= 10000000):
            rec.skip('forward image outside the accepted easting/northing range')
            continue
        if case['prj'] != 'isg' and not (1 <= d['zone'] <= 60):
            rec.skip('zone label beyond 60: outside the domain of the inverse conversion')
            continue
        st, r = rec.call(grid2geo, d['zone'], d['east'], d['north'], d['hemi'], ell, prj)
        if st != 'ok':
            rec.fail('grid2geo raised on the image of a valid position', site='convert:grid2geo', observed=r, case=one, coords=co)
            continue
        inv.append((d, r, one, co))
    if not inv:
        return
    # an unrelated forward conversion of ANOTHER ellipsoid and projection in between: the inverse results below must not
    # depend on which conversion happened to run last in this process
    other = ('intl24', 'utm') if case['ell'] != 'intl24' else ('grs80', 'p1')
    rec.call(geo2grid, -12.3456789, 131.9876543, 0, ELLS[other[0]], PRJS[other[1]])
    reinv = []
    for (d, r, one, co) in inv:
        st, r2 = rec.call(grid2geo, d['zone'], d['east'], d['north'], d['hemi'], ell, prj)
        if st != 'ok' or tuple(r2) != tuple(r):
            rec.fail('grid2geo returns different values after an unrelated conversion with another ellipsoid ran in between',
                     site='convert:grid2geo:call-order', observed=r2, expected=list(r), case=one, coords=co)
    lat2 = np.array([r[0] for d, r, one, co in inv])
    dl2 = np.array([r[1] - d['cm'] for d, r, one, co in inv])
    _, _, k2, g2 = oracle_tm.forward_np(lat2, dl2, a, invf, k0)
    for j, (d, r, one, co) in enumerate(inv):
        dk, dg = abs(r[2] - float(k2[j])), abs(r[3] - float(g2[j]))
        rec.dev('inv_k', dk, one)
        rec.dev('inv_gamma_deg', dg, one)
        if dk > TOL_K or dk != dk:
            rec.fail('inverse point scale factor is not that of the requested projection/ellipsoid',
                     site='convert:grid2geo:psf', observed=r[2], expected=float(k2[j]), tol=TOL_K, case=one, coords=co)
        if dg > TOL_G or dg != dg:
            rec.fail('inverse grid convergence differs from the exact projection', site='convert:grid2geo:gridconv',
                     observed=r[3], expected=float(g2[j]), tol=TOL_G, case=one, coords=co)
        # same point, both directions
        if -80 <= r[0] <= 84 and -180 <= r[1] <= 180:
            st, f2 = rec.call(geo2grid, r[0], r[1], d['zone'], ell, prj)
            if st == 'ok':
                if abs(f2[4] - r[2]) > 1e-8 + 1e-12 or abs(f2[5] - r[3]) > 1e-9:
                    rec.fail('forward and inverse conversion report different scale factor / convergence for the same point',
                             site='convert:psf:fwd-vs-inv', observed=[r[2], r[3]], expected=[f2[4], f2[5]], case=one, coords=co)
    rec.sample({'case': dict(case, lons=case['lons'][:2]), 'psf': inv[0][1][2], 'gridconv': inv[0][1][3],
                'oracle': [float(k2[0]), float(g2[0])]})


def gen(tier, seed):
    return tmcommon.gen_rows(tier, seed, kinds=False)


# --- grid coordinates placed directly, incl. northings CONTINUED across the equator: a southern-convention northing above
# the false northing (a point north of the equator kept in the southern numbering, as happens at the northern edge of a
# southern network and with projections whose false northing is small) and a negative northern-convention northing
def gen_grid(tier, seed):
    for ell, prj in cfg.TM_CONFIGS:
        if prj == 'isg2':
            continue
        fe, fn, k0, zw, icm = PRJ_PAR[prj]
        zs = tmcommon.explicit_zones(prj, 'quick')[:4]
        for z in zs:
            for hemi, norths in (('South', [fn - 3.0e6, fn - 1.0e3, fn, fn + 1.0e3, fn + 1.0e5, fn + 2.0e6]),
                                 ('North', [-2.0e6, -1.0e5, -1.0e3, 0.0, 1.0e3, 3.0e6])):
                yield {'ell': ell, 'prj': prj, 'zone': z, 'hemi': hemi, 'norths': norths,
                       'easts': [fe - 3.0e5, fe - 1.0e3, fe, fe + 1.0e3, fe + 3.0e5]}


def ev_grid(case, rec):
    ell, prj = cfg.ell_obj(case['ell']), PRJS[case['prj']]
    a, invf = ELL_AF[case['ell']]
    fe, fn, k0, zw, icm = PRJ_PAR[case['prj']]
    z, hemi = case['zone'], case['hemi']
    cm = cfg.cm_of(case['prj'], z)
    did_dims = False
    for north in case['norths']:
        y = (north - fn) if hemi == 'South' else north
        easts = np.array(case['easts'], dtype=float)
        olat, odl, ok_, og = oracle_tm.inverse_np(np.full(len(easts), y), easts - fe, a, invf, k0)
        for j, east in enumerate(case['easts']):
            one = dict(case, norths=[north], easts=[east])
            la, dl = float(olat[j]), float(odl[j])
            if not (la == la) or not (-80 + 1e-6 <= la <= 84 - 1e-6) or not (-180 <= cm + dl <= 180):
                rec.skip('outside the band / longitude range per the oracle')
                continue
            if not (0 <= north <= 10000000):
                rec.skip('northing outside the accepted range')
                continue
            st, r = rec.call(grid2geo, z, east, north, hemi, ell, prj)
            co = {'ell': case['ell'], 'prj': case['prj'], 'zone': z, 'hemi': hemi, 'east': east, 'north': north, 'lat': la,
                  'continued': (hemi == 'South' and la > 0) or (hemi == 'North' and la < 0)}
            if st != 'ok':
                rec.fail('grid2geo raised on a grid coordinate inside its accepted range', site='convert:grid2geo', observed=r, case=one, coords=co)
                continue
            rec.nontriv((case['ell'], case['prj'], z, hemi, east, north))
            rec.state((case['ell'], case['prj'], z, float(r[2]).hex(), float(r[3]).hex()))
            dk, dg = abs(r[2] - float(ok_[j])), abs(r[3] - float(og[j]))
            dp = max(abs(r[0] - la), abs(r[1] - (cm + dl)))
            rec.dev('grid_k', dk, one)
            rec.dev('grid_gamma_deg', dg, one)
            bad = False
            if dp > 3e-9:
                bad = True
                rec.fail('grid2geo position differs from the exact inverse projection', site='convert:grid2geo:position', observed=[r[0], r[1]],
                         expected=[la, cm + dl], tol=3e-9, case=one, coords=co)
            if dk > TOL_K or dk != dk:
                bad = True
                rec.fail('inverse point scale factor is not that of the requested projection/ellipsoid', site='convert:grid2geo:psf',
                         observed=r[2], expected=float(ok_[j]), tol=TOL_K, case=one, coords=co)
            if dg > TOL_G or dg != dg:
                bad = True
                rec.fail('inverse grid convergence differs from the exact projection (sign: grid bearing = azimuth + gamma)',
                         site='convert:grid2geo:gridconv', observed=r[3], expected=float(og[j]), tol=TOL_G, case=one, coords=co)
            rec.outcome(('bad-' if bad else 'ok-') + ('continued' if co['continued'] else 'own-side'))
            if j == 1 and not did_dims and not bad:
                did_dims = True
                call_dimensions(rec, case, one, co, z, east, north, hemi, ell, prj, r)
    rec.sample({'case': dict(case, norths=case['norths'][:2])})


def call_dimensions(rec, case, one, co, z, east, north, hemi, ell, prj, r):
    """the same conversion requested (a) with the hemisphere word in other spellings - a spelling is either rejected with an
    exception or means the hemisphere it names - and (b) with the ellipsoid / projection given as other objects of the same
    meaning (instance of a subclass, copies, pickle round trip: must behave identically; an object of another class carrying the
    same fields: rejected or identical).  'Those of the projection and ellipsoid requested in the call.'"""
    for sp in (hemi.lower(), hemi.upper(), hemi.swapcase(), hemi[0], hemi[0].lower(), ' %s ' % hemi, hemi + '\n', hemi.lower() + 'ern',
               hemi[:3], hemi[:4].upper()):
        st, r2 = rec.call(grid2geo, z, east, north, sp, ell, prj)
        rec.nontriv(('spelling', case['ell'], case['prj'], z, sp))
        if st == 'ok' and tuple(r2) != tuple(r):
            rec.fail('the hemisphere spelled %r is accepted but not read as %s' % (sp, hemi), site='convert:grid2geo:hemisphere-spelling',
                     observed=list(r2), expected=list(r), case=one, coords=dict(co, spelling=sp))
            rec.outcome('spelling-bad')
        else:
            rec.outcome('spelling-' + ('accepted' if st == 'ok' else 'rejected'))
    st0, f0 = rec.call(geo2grid, r[0], r[1], z, ell, prj)
    forms = [('ellipsoid:' + nm, E, prj, strict) for nm, E, strict in cfg.ell_object_forms(case['ell'])]
    if case['prj'] not in ('isg', 'isg2'):
        forms += [('projection:' + nm, ell, P, strict) for nm, P, strict in cfg.prj_object_forms(case['prj'])]
    for nm, E, P, strict in forms:
        for fn_, args, base in ((grid2geo, (z, east, north, hemi, E, P), ('ok', r)), (geo2grid, (r[0], r[1], z, E, P), (st0, f0))):
            st, r2 = rec.call(fn_, *args)
            rec.nontriv(('objform', case['ell'], case['prj'], z, nm, fn_.__name__))
            same = st == base[0] and (st != 'ok' or tuple(r2) == tuple(base[1]))
            if not same and (strict or st == 'ok'):
                rec.fail('%s gives a different result when the %s is given as another object of the same meaning (%s)'
                         % (fn_.__name__, nm.split(':')[0], nm.split(':')[1]), site='convert:%s:object-form' % fn_.__name__,
                         observed=r2 if st != 'ok' else list(r2), expected=list(base[1]) if base[0] == 'ok' else base[1], case=one,
                         coords=dict(co, form=nm))
                rec.outcome('objform-bad')
            else:
                rec.outcome('objform-ok' if same else 'objform-rejected')


# --- two threads at DIFFERENT positions / ellipsoids / projections at the same time ----------
from gpmc import threads as _thr
import numpy as _tnp
import geodepy.constants as _tgc
import geodepy.convert as _tgv
import geodepy.geodesy as _tgg
import geodepy.angles as _tga
T_CALLS = {
    'fwd_utm': lambda: (lambda: _tgv.geo2grid(-33.5, 151.2)[4:]),
    'fwd_isg': lambda: (lambda: _tgv.geo2grid(-33.5, 151.2, 0, _tgc.ans, _tgc.isg)[4:]),
    'inv_utm_north': lambda: (lambda: _tgv.grid2geo(18, 612345.678, 4321098.765, 'North', _tgc.intl24)[2:]),
    'inv_isg': lambda: (lambda: _tgv.grid2geo(561, 318743.2, 1291327.7, 'south', _tgc.ans, _tgc.isg)[2:]),
}
_tg, _te = _thr.make(T_CALLS, ['geodepy/convert.py'], 'convert:psfandgridconv:threads', quick=['fwd_isg', 'inv_utm_north', 'inv_isg'], triple=('fwd_utm', 'fwd_isg', 'inv_isg'), parts=4)


from gpmc import callforms as _cf


from gpmc import interp as _ip


from gpmc import manyobj as _mo
SUBCHECKS = [Sub('psf_gridconv', gen, ev_row, chunk=16, floor=1000, envs=24), Sub('grid_direct', gen_grid, ev_grid, chunk=4, floor=300), Sub('threads', _tg, _te, chunk=1, floor=3, poison=False, fresh=True, timeout=7200), Sub('many_objects', *_mo.make('C10', 'convert'), chunk=1, floor=3, poison=False, fresh=True, timeout=7200), Sub('callforms', *_cf.make('C10', 'convert'), chunk=1, floor=1, guard=True), Sub('interpreter', *_ip.make('C10', 'convert'), chunk=1, floor=5, poison=False)]


def bounds(tier, seed):
    return {'configs': cfg.TM_CONFIGS, 'depth': 2, 'tol_k': TOL_K, 'tol_gamma_deg': TOL_G,
            'latitudes': len(cfg.lat_lattice_tm(tier, seed))}
