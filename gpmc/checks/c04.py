"""C04 — Vincenty direct solution follows the exact ellipsoidal geodesic.

Space: ellipsoids (4 shipped + 4 Earth-like corners) x lat1 (poles, equator +-1e-9, fill) x lon1 x azimuth
(cardinals, 1e-9, 359.999999, 360, fill) x distance (0, 1 mm .. 20 000 km, log and linear fill) x input types.
Oracle: exact geodesic integrals (oracle_geod): float64 on the full lattice, 34-digit mpmath on the
structural sub-lattice ('mp' sub-check).
"""
import math

import numpy as np

from geodepy.geodesy import vincdir
from gpmc import cfg, oracle_geod as og
from gpmc.cfg import ELLS, ELL_AF, uniq, fill
from gpmc.core import Sub, HarnessError

PROPERTY = 'C04'
TOL_POS = 1e-3
TOL_AZ = 1e-8
ASSUMPTIONS = [
    'exact geodesic evaluated by Gauss-Legendre quadrature of the auxiliary-sphere integrals; float64 version '
    'validated at run time against the 34-digit version (< 1e-7 m, < 1e-11 deg) and by its own round trip',
    'a pole start is the limit of the formulas (azimuth a1 at the north pole follows meridian lon1+180-a1), validated by continuity',
    'end-point separation measured as the 3-D chord on the ellipsoid (equal to the surface distance at mm level)',
    'continuum decided on a lattice (structural points + regular fill + seed-shifted fill)',
]
_SC = {}


def prepare(tier, seed):
    sc = og.selfcheck()
    _SC.update(sc)
    if not sc['ok']:
        raise HarnessError('geodesic oracle self-check failed: %r' % sc)


def evidence_extra():
    return {'oracle_selfcheck': dict(_SC)}


S_LAT = [-90.0, -89.0, -60.0, -30.0, -1e-9, 0.0, 1e-9, 30.0, 60.0, 89.0, 90.0, 66.5, -75.0, 88.5, -88.9]
S_AZ = [0.0, 1e-9, 30.0, 45.0, 90.0, 135.0, 180.0, 270.0, 359.999999, 360.0]
S_DIST = [0.0, 1e-3, 1.0, 1e3, 1e5, 1e6, 5e6, 1e7, 1.5e7, 2e7,
          1e-6, 1e-4, 4.9e-4, 5.1e-4, 9.9e-4]      # below the millimetre the inverse solution is rounded to
LON1 = [-180.0, 0.0, 10.0, 180.0]


def lat_l(tier, seed):
    return uniq(S_LAT + fill(-85.0, 85.0, 17.0 if tier == 'quick' else 5.0, seed, 21))


def az_l(tier, seed):
    return uniq(S_AZ + fill(0.0, 359.0, 15.0 if tier == 'quick' else 5.0, seed, 22))


def dist_l(tier, seed):
    n = 8 if tier == 'quick' else 30
    ph = (seed * 0.6180339887) % 1.0
    logs = [10 ** (-3 + (10.3 * (i + ph) / n)) for i in range(n)]
    lin = fill(1.3e6, 2e7, 2.6e6 if tier == 'quick' else 6.5e5, seed, 23)
    return uniq(S_DIST + [x for x in logs if x <= 2e7] + lin)


def gen(tier, seed):
    az, ds = az_l(tier, seed), dist_l(tier, seed)
    for ell in cfg.G8:
        for lat in lat_l(tier, seed):
            for lon in LON1:
                yield {'ell': ell, 'lat': lat, 'lon': lon, 'az': az, 'dist': ds, 'kind': 'float'}
    for ell in ('grs80', 'ans'):
        for lat, lon in ((-37.95103342, 144.42486789), (0.0, 144.42486789), (45.5, -0.45), (-0.3, 10.0),
                         (-37.500000002, 144.00000000001), (90.0, 10.0), (-90.0, -0.45), (89.1, 180.0), (-45.0, -180.0)):
            for kind in cfg.INTYPES[1:] + cfg.NUMFORMS:
                yield {'ell': ell, 'lat': lat, 'lon': lon, 'az': [0.0, 0.15, 306.868159, 180.0], 'dist': [54972.271, 1e6],
                       'kind': kind}


def special_dists(lat, az, a, invf):
    """distances at which the leading periodic term of the direct series vanishes exactly: 2 sigma1 + sigma = 90 deg (mod 180).
    Computed with the textbook series (inputs only - the verdict is still the exact geodesic): an iteration that stops 'because the
    correction is zero' is wrong there, the neglected second-order term being up to 2 m"""
    f = 1.0 / invf
    b = a * (1.0 - f)
    u1 = math.atan((1.0 - f) * math.tan(math.radians(lat)))
    al = math.radians(az)
    s1 = math.atan2(math.tan(u1), math.cos(al))
    sin_alpha = math.cos(u1) * math.sin(al)
    cos2a = 1.0 - sin_alpha * sin_alpha
    u2 = cos2a * (a * a - b * b) / (b * b)
    A = 1 + u2 / 16384 * (4096 + u2 * (-768 + u2 * (320 - 175 * u2)))
    B = u2 / 1024 * (256 + u2 * (-128 + u2 * (74 - 47 * u2)))
    out = []
    for k in range(-2, 4):
        sg = math.pi / 2 - 2 * s1 + k * math.pi
        if sg <= 1e-3:
            continue
        c2m = math.cos(2 * s1 + sg)
        ds = B * math.sin(sg) * (c2m + B / 4 * (math.cos(sg) * (-1 + 2 * c2m * c2m) - B / 6 * c2m * (-3 + 4 * math.sin(sg) ** 2) * (-3 + 4 * c2m * c2m)))
        s = b * A * (sg - ds)
        if 1.0 < s <= 2.0e7:
            out += [s, s + 1e-3, s - 2e-3]
    return out


def gen_bands(tier, seed):
    """(a) near-equatorial long lines: start latitudes in decade / 1-2-5 steps below a degree, azimuths at and near east / west;
    (b) distances at which the leading periodic term of the series vanishes"""
    ells = ['grs80', 'intl24', 'g64_320'] if tier == 'quick' else cfg.G8
    small = [1e-6, 1e-4, 1e-3, 0.005, 0.01, 0.015, 0.02, 0.03, 0.05, 0.1, 0.3]
    for ell in ells:
        for la in small:
            for sg in (1, -1):
                yield {'ell': ell, 'lat': sg * la, 'lon': 10.0, 'az': [90.0, 89.99, 90.02, 270.0, 269.985, 60.0], 'dist': [1e5, 4e6, 1e7, 1.9e7], 'kind': 'float'}
        for la in (0.0, 0.0, 0.0):
            pass
        yield {'ell': ell, 'lat': 0.0, 'lon': 10.0, 'az': [89.99, 89.985, 89.98, 90.015, 270.02], 'dist': [4e6, 1e7, 1.9e7], 'kind': 'float'}
        a, invf = ELL_AF[ell]
        for la in (25.0, -40.0, 60.0, 5.0, -75.0):
            for az in (40.0, 130.0, 250.0, 315.0, 10.0):
                ds = special_dists(la, az, a, invf)
                if ds:
                    yield {'ell': ell, 'lat': la, 'lon': 10.0, 'az': [az], 'dist': ds, 'kind': 'float'}


def angdiff(a, b):
    return abs((a - b + 180.0) % 360.0 - 180.0)


def check_point(rec, case, one, r, o_lat, o_lon, o_az2, a, invf, co):
    lat2, lon2, rev = r
    d = float(og.chord_np(lat2, lon2, o_lat, o_lon, a, invf))
    rec.dev('pos_m', d, one)
    bad = False
    if d > TOL_POS or d != d:
        bad = True
        rec.fail('direct solution end point is more than 1 mm from the exact geodesic', site='geodesy:vincdir:position',
                 observed=[lat2, lon2], expected=[o_lat, o_lon], tol=TOL_POS, case=one, coords=dict(co, err=d))
    if abs(o_lat) < 89.0:
        exp_rev = (o_az2 + 180.0) % 360.0
        da = angdiff(rev, exp_rev)
        rec.dev('rev_az_deg', da, one)
        if da > TOL_AZ or da != da:
            bad = True
            rec.fail('reverse azimuth differs from the exact geodesic by more than 1e-8 deg', site='geodesy:vincdir:azimuth',
                     observed=rev, expected=exp_rev, tol=TOL_AZ, case=one, coords=dict(co, err=da))
    rec.outcome('bad' if bad else 'ok')


def ev(case, rec):
    ell = case['ell']
    EOBJ = cfg.ell_obj(ell)
    a, invf = ELL_AF[ell]
    lat, lon, kind = case['lat'], case['lon'], case['kind']
    AZ, DS = np.meshgrid(np.array(case['az'], float), np.array(case['dist'], float), indexing='ij')
    if kind == 'float':
        o_lat, o_lon, o_az2, _ = og.direct_np(lat, lon, AZ, DS, a, invf)
    for i, az in enumerate(case['az']):
        for j, s in enumerate(case['dist']):
            one = dict(case, az=[az], dist=[s])
            co = {'ell': ell, 'lat': lat, 'lon': lon, 'az': az, 'dist': s}
            if kind == 'float':
                st, r = rec.call(vincdir, lat, lon, az, s, EOBJ)
                if st != 'ok':
                    rec.fail('vincdir raised', site='geodesy:vincdir', observed=r, case=one, coords=co)
                    continue
                rec.nontriv((ell, lat, lon, az, s))
                rec.state((ell,) + tuple(float(v).hex() for v in r))
                check_point(rec, case, one, r, float(o_lat[i, j]), float(o_lon[i, j]), float(o_az2[i, j]), a, invf, co)
            else:
                try:
                    la, lo, az_o = cfg.as_type(lat, kind), cfg.as_type(lon, kind), cfg.as_type(az, kind)
                except Exception:
                    rec.skip('input object of class %s could not be built (C08)' % kind)
                    continue
                st, r = rec.call(vincdir, cfg.unwrap(la), cfg.unwrap(lo), cfg.unwrap(az_o), s, ELLS[ell])
                st2, r2 = rec.call(vincdir, la.dec(), lo.dec(), az_o.dec(), s, ELLS[ell])
                rec.nontriv((ell, lat, lon, az, s, kind))
                # ... and the object denotes the lattice value in its own notation (100 gon IS the pole): the result is the result
                # for that value (which the float lattice judges against the exact geodesic)
                st0, r0 = rec.call(vincdir, lat, lon, az, s, ELLS[ell])
                if st != 'ok' or st2 != 'ok' or tuple(r) != tuple(r2):
                    rec.fail('angle-class arguments give a different result from their decimal-degree values',
                             site='geodesy:vincdir:intype', observed=r, expected=r2, case=one, coords=co)
                elif st0 == 'ok' and kind != 'np32' and (abs(r[0] - r0[0]) > 1e-8 or cfg.angdiff(r[1], r0[1]) * max(math.cos(math.radians(r0[0])), 0.0) > 1e-8
                                      or (abs(r0[0]) < 89.9999 and cfg.angdiff(r[2], r0[2]) > 1e-6)):
                    rec.fail('an angle object that denotes the value %r in its own notation gives a different result from that value' % lat,
                             site='geodesy:vincdir:intype-value', observed=list(r), expected=list(r0), case=one, coords=dict(co, kind=kind))
                else:
                    rec.outcome('intype-ok')
    rec.sample({'case': dict(case, az=case['az'][:2], dist=case['dist'][:2])})


# --- structural sub-lattice through the 34-digit oracle -----------------------------------------
def gen_mp(tier, seed):
    ells = ['grs80', 'g63_280'] if tier == 'quick' else ['grs80', 'intl24', 'g63_280', 'g64_320']
    lats = [-90.0, -60.0, -1e-9, 0.0, 30.0, 89.0, 90.0] if tier == 'quick' else S_LAT
    azs = [0.0, 1e-9, 45.0, 90.0, 180.0, 270.0, 359.999999] if tier == 'quick' else S_AZ
    ds = [1e-3, 1e3, 1e6, 1e7, 2e7] if tier == 'quick' else S_DIST
    for ell in ells:
        for lat in lats:
            for az in azs:
                yield {'ell': ell, 'lat': lat, 'lon': 10.0, 'az': az, 'dist': ds}


def ev_mp(case, rec):
    ell = case['ell']
    a, invf = ELL_AF[ell]
    for s in case['dist']:
        one = dict(case, dist=[s])
        st, r = rec.call(vincdir, case['lat'], case['lon'], case['az'], s, ELLS[ell])
        if st != 'ok':
            rec.fail('vincdir raised', site='geodesy:vincdir', observed=r, case=one)
            continue
        m = og.direct_mp(case['lat'], case['lon'], case['az'], s, a, invf)
        rec.nontriv((ell, case['lat'], case['az'], s))
        check_point(rec, case, one, r, float(m[0]), float(m[1]), float(m[2]), a, invf,
                    {'ell': ell, 'lat': case['lat'], 'az': case['az'], 'dist': s})
    rec.sample(case)


# --- two threads solving DIFFERENT direct problems on DIFFERENT ellipsoids at the same time ----------
from gpmc import threads as _thr
import numpy as _tnp
import geodepy.constants as _tgc
import geodepy.convert as _tgv
import geodepy.geodesy as _tgg
import geodepy.angles as _tga
T_CALLS = {
    'grs80': lambda: (lambda: _tgg.vincdir(-37.95103342, 144.42486789, 306.86815920, 54972.271)),
    'intl_long': lambda: (lambda: _tgg.vincdir(10.0, -20.0, 45.0, 1.5e7, _tgc.intl24)),
    'ans_polar': lambda: (lambda: _tgg.vincdir(89.0, 10.0, 0.0, 3.0e5, _tgc.ans)),
    'obj': lambda: (lambda: _tgg.vincdir(_tga.DMSAngle(-0, 30, 0), _tga.DMSAngle(100, 0, 0), _tga.DMSAngle(90, 0, 0), 1.0e6)),
}
_tg, _te = _thr.make(T_CALLS, ['geodepy/geodesy.py'], 'geodesy:vincdir:threads', quick=['grs80', 'intl_long', 'ans_polar'],
                     triple=('grs80', 'intl_long', 'obj'))


from gpmc import callforms as _cf


from gpmc import interp as _ip


from gpmc import manyobj as _mo
SUBCHECKS = [
    Sub('direct', gen, ev, chunk=4, floor=1000, envs=6),
    Sub('bands', gen_bands, ev, chunk=4, floor=300),
    Sub('mp', gen_mp, ev_mp, chunk=2, floor=100),
    Sub('threads', _tg, _te, chunk=1, floor=3, poison=False, fresh=True, timeout=7200),
    Sub('many_objects', *_mo.make('C04', 'geodesy'), chunk=1, floor=3, poison=False, fresh=True, timeout=7200), Sub('callforms', *_cf.make('C04', 'geodesy'), chunk=1, floor=1, guard=True),
    Sub('interpreter', *_ip.make('C04', 'geodesy'), chunk=1, floor=5, poison=False),
]


def bounds(tier, seed):
    return {'ellipsoids': cfg.G8, 'lat1': len(lat_l(tier, seed)), 'lon1': LON1, 'azimuths': len(az_l(tier, seed)),
            'distances': len(dist_l(tier, seed)), 'depth': 1, 'tol_pos_m': TOL_POS, 'tol_az_deg': TOL_AZ}
