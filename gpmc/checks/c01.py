"""C01 — forward grid conversion equals the exact Transverse Mercator of the ellipsoid.

Space: (ellipsoid, projection) configurations x latitude lattice x (automatic-zone longitude lattice with
every zone boundary / central meridian and their 1e-9, 1e-6 neighbours  U  explicit zones x offsets up to
30 deg from the CM) x input type.  One transition (geo2grid) per state; oracle = exact TM (oracle_tm).
"""
import math

from geodepy.convert import geo2grid
from gpmc import cfg, oracle_tm, tmcommon
from gpmc.cfg import ELLS, PRJS, PRJ_PAR
from gpmc.core import Sub, HarnessError

PROPERTY = 'C01'
TOL_M = 2e-4
ASSUMPTIONS = [
    'exact TM evaluated in float64 (validated at run time against 34-digit mpmath: agreement < 2e-8 m)',
    'lat = 0 may be labelled either hemisphere (the statement leaves the sign of zero free)',
    'zones above 60 (3-degree user layout, lon >= 0) are outside the API domain and not enumerated',
    'continuum decided on a lattice: all structural boundaries + regular fill (quick 4 deg x 6 deg, thorough 1 x 1.5) + seed-shifted fill',
]
_SC = {}


def prepare(tier, seed):
    sc = oracle_tm.selfcheck()
    _SC.update(sc)
    if not sc['ok']:
        raise HarnessError('TM oracle self-check failed: %r' % sc)


def evidence_extra():
    return {'oracle_selfcheck': dict(_SC)}


def ev_row(case, rec):
    res, idx = tmcommon.forward_row(case, rec)
    fe, fn, k0, zw, icm = PRJ_PAR[case['prj']]
    lat = case['lat']
    any_ok = False
    for d in res:
        if d is None:
            continue
        any_ok = True
        one = tmcommon.single(case, d['lon'])
        rec.state((case['ell'], case['prj'], d['zone'], d['hemi'], d['east'], d['north']))
        rec.nontriv((case['ell'], case['prj'], case['zone'], lat, d['lon'], case.get('kind')))
        co = {'lat': lat, 'lon': d['lon'], 'ell': case['ell'], 'prj': case['prj'], 'zone': case['zone']}
        # zone
        if case['prj'] == 'isg2':
            pass        # only the coordinates are judged (against the exact TM about the nearest layout meridian)
        elif case['zone'] == 0:
            okz = (not math.isnan(d['cm'])) and abs(d['lonf'] - d['cm']) <= zw / 2 + 1e-9
            if case['prj'] != 'isg':
                okz = okz and 1 <= d['zone'] <= 60
            if not okz:
                rec.fail('automatic zone is not the zone whose central meridian is within half a zone width',
                         site='convert:geo2grid:zone', observed=d['zone'], case=one, coords=co)
                rec.outcome('badzone')
                continue
        elif d['zone'] != case['zone']:
            rec.fail('explicit zone not honoured', site='convert:geo2grid:zone', observed=d['zone'],
                     expected=case['zone'], case=one, coords=co)
            continue
        # hemisphere label
        lf = d['latf']
        if lf < 0 and d['hemi'] != 'South' or lf > 0 and d['hemi'] != 'North':
            rec.fail('hemisphere label does not follow the sign of the latitude', site='convert:geo2grid:hemisphere',
                     observed=d['hemi'], case=one, coords=co)
        o_n = d['o_n']
        if lf == 0:   # either convention accepted at exactly zero
            o_n = (fn if d['hemi'] == 'South' else 0.0) + (d['o_n'] - 0.0)
        de, dn = abs(d['east'] - d['o_e']), abs(d['north'] - o_n)
        rec.dev('east_m', de, one)
        rec.dev('north_m', dn, one)
        if de > TOL_M or dn > TOL_M or de != de or dn != dn:
            rec.fail('grid coordinates differ from the exact Transverse Mercator image by more than 0.2 mm',
                     site='convert:geo2grid:coords', observed=[d['east'], d['north']], expected=[d['o_e'], o_n],
                     tol=TOL_M, case=one, coords=dict(co, de=de, dn=dn))
            rec.outcome('coords-bad')
        else:
            rec.outcome('ok-' + d['hemi'])
        if case.get('kind', 'float') == 'float' and lat == int(lat) and d['lon'] == int(d['lon']) and case['prj'] != 'isg2' \
                and (int(lat) + int(d['lon']) + case['zone']) % 5 == 0:
            # whole-degree positions in every exact numeric spelling (Python int, numpy integers of every width, ...)
            eo, po = cfg.ell_obj(case['ell']), PRJS[case['prj']]
            cfg.scalar_forms_agree(rec, lambda la, lo, z: geo2grid(la, lo, z, eo, po), [lat, d['lon'], case['zone']], [0, 1, 2],
                                   (d['hemi'], d['zone'], d['east'], d['north'], d['psf'], d['gc']), 'convert:geo2grid', one, co, 'geo2grid')
            rec.outcome('numeric-forms')
        if case.get('kind', 'float') != 'float':
            st, r2 = rec.call(geo2grid, d['latf'], d['lonf'], case['zone'], ELLS[case['ell']], PRJS[case['prj']])
            got = (d['hemi'], d['zone'], d['east'], d['north'], d['psf'], d['gc'])
            if st != 'ok' or tuple(r2) != got:
                rec.fail('angle-class input gives a different result from its decimal-degree value',
                         site='convert:geo2grid:intype', observed=got, expected=r2, case=one, coords=co)
    if any_ok:
        rec.sample({'case': dict(case, lons=case['lons'][:3]), 'first_result': [res[idx[0]][k] for k in ('hemi', 'zone', 'east', 'north')],
                    'oracle': [res[idx[0]]['o_e'], res[idx[0]]['o_n']]})


def gen(tier, seed):
    return tmcommon.gen_rows(tier, seed)


def gen_const(tier, seed):
    yield {'what': 'shipped ellipsoid and projection constants'}


def ev_const(case, rec):
    rec.transition()
    rec.nontriv()
    bad = cfg.published_constants_ok()
    rec.state(('constants', len(bad)))
    for n, got, exp in bad:
        rec.fail('shipped constant %s does not carry its published defining values' % n, site='constants:' + n, observed=got, expected=exp)
    rec.outcome('constants-ok' if not bad else 'constants-bad')
    rec.sample({'published_ellipsoids': cfg.PUBLISHED_ELL, 'published_projections': cfg.PUBLISHED_PRJ})


# --- two threads projecting DIFFERENT positions on DIFFERENT ellipsoids / projections at the same time ----------
from gpmc import threads as _thr
import numpy as _tnp
import geodepy.constants as _tgc
import geodepy.convert as _tgv
import geodepy.geodesy as _tgg
import geodepy.angles as _tga
T_CALLS = {
    'utm_grs80': lambda: (lambda: _tgv.geo2grid(-33.5, 151.2)),
    'isg_ans': lambda: (lambda: _tgv.geo2grid(-33.5, 151.2, 0, _tgc.ans, _tgc.isg)),
    'utm_intl_north': lambda: (lambda: _tgv.geo2grid(45.5, -73.6, 18, _tgc.intl24)),
    'utm_obj': lambda: (lambda: _tgv.geo2grid(_tga.DMSAngle(-23, 40, 12.5), _tga.DMSAngle(133, 53, 6.0))),
    'user_prj': lambda: (lambda p=_tgc.Projection(200000, 4000000, 0.9999, 4, -178): _tgv.geo2grid(12.25, 45.5, 0, _tgc.wgs84, p)),
    'm1': lambda: (lambda: _tgv.geo2grid(-1, 151.2)),
    'm2': lambda: (lambda: _tgv.geo2grid(-2, 151.2)),
}
_tg, _te = _thr.make(T_CALLS, ['geodepy/convert.py'], 'convert:geo2grid:threads', quick=['utm_grs80', 'isg_ans', 'utm_intl_north', 'user_prj'],
                     triple=('utm_grs80', 'isg_ans', 'user_prj'), files_thorough=['geodepy/angles.py', 'geodepy/constants.py'], parts=4)


from gpmc import callforms as _cf


from gpmc import interp as _ip


from gpmc import manyobj as _mo
SUBCHECKS = [Sub('constants', gen_const, ev_const, chunk=1, floor=1, parallel=False), Sub('forward', gen, ev_row, chunk=24, floor=1000, envs=16), Sub('threads', _tg, _te, chunk=1, floor=3, poison=False, fresh=True, timeout=7200), Sub('many_objects', *_mo.make('C01', 'convert'), chunk=1, floor=3, poison=False, fresh=True, timeout=7200), Sub('callforms', *_cf.make('C01', 'convert'), chunk=1, floor=1, guard=True), Sub('interpreter', *_ip.make('C01', 'convert'), chunk=1, floor=5, poison=False)]


def bounds(tier, seed):
    return {'configs': cfg.TM_CONFIGS, 'latitudes': len(cfg.lat_lattice_tm(tier, seed)),
            'auto_longitudes_utm': len(tmcommon.auto_lons('utm', tier, seed)),
            'explicit_zones_utm': tmcommon.explicit_zones('utm', tier), 'offsets_deg': tmcommon.OFFSETS,
            'input_types': cfg.INTYPES, 'depth': 1, 'tolerance_m': TOL_M}
