"""C19 — survey reductions are geometrically and physically self-consistent.

  plane   : joins / radiations / polar2rect / rect2polar on a plane lattice (|c| <= 1e7, bearings every 15 deg and the
            axes +-1e-9 deg, lengths 1e-3 .. 1e7): radiations o joins = identity (1e-9 d), bearing in [0, 360), rotation and
            scale arguments rotate and scale the radiated vector
  vaconv  : va_conv on zenith x slope x instrument/target heights: Pythagoras, heights shift only the height difference
  atmos   : first_vel_corrn on wavelength x temperature (incl. 0 C) x pressure x humidity (incl. 0 %) / wet bulb x CO2:
            defined everywhere, proportional to distance, CO2 form = (n_ref / n_g - 1) d, within 1 ppm of the closed form
            at 420 ppm for 0.5..1.0 um; group refractivity = phase refractivity + sigma dN/dsigma (5-point stencil of
            phase_refractivity itself)
"""
import math

import numpy as np

from geodepy.convert import polar2rect, rect2polar
from geodepy.survey import (joins, radiations, va_conv, first_vel_params, first_vel_corrn, phase_refractivity,
                            group_refractivity, humidity2part_water_vapour_press, part_h2o_vap_press)
from gpmc.cfg import uniq, fill
from gpmc.core import Sub

PROPERTY = 'C19'
ASSUMPTIONS = [
    'plane geometry compared with IEEE float trigonometry (tolerance 1e-9 of the distance as stated)',
    'the dispersion derivative is a 5-point central stencil of phase_refractivity in wavenumber (h = 1e-3 sigma)',
    'the CO2-aware form is compared with (n_ref / n_g - 1) d using the library\'s own group refractivity, which is tied to '
    'the phase refractivity by the dispersion relation in the same check',
]
ORIGINS = [(0.0, 0.0), (1e7, -1e7), (-543210.123, 6234567.891), (500000.0, 1e7)]
LENGTHS = [1e-3, 1.0, 123.456, 1e4, 1e7]


def bearings(tier, seed):
    b = []
    for ax in (0.0, 90.0, 180.0, 270.0, 360.0):
        b += [ax, ax + 1e-9, ax - 1e-9]
    b += fill(0.0, 359.0, 5.0 if tier == 'quick' else 1.0, seed, 61)
    return uniq([x for x in b if 0.0 <= x < 360.0])


INT_FORMS = [('float', float), ('int', int), ('npi64', np.int64), ('npi32', np.int32), ('npi16', np.int16), ('np64', np.float64)]
INT_DELTAS = [(dx, dy) for dx in (-2, -1, 0, 1, 2) for dy in (-2, -1, 0, 1, 2) if (dx, dy) != (0, 0)] + [(0, 100), (100, 0), (0, -7), (-7, 0), (300, -400)]


def ev_intgrid(rec, case):
    """joins between points of a whole-number grid (incl. lines exactly along the axes), the coordinates held as Python ints /
    numpy integers / floats: same distance and bearing in every form, bearing clockwise from north in [0, 360)"""
    for e1, n1 in ((0, 0), (500, 600), (-3, 7)):
        for dx, dy in INT_DELTAS:
            exp_d, exp_b = math.hypot(dx, dy), math.degrees(math.atan2(dx, dy)) % 360.0
            for nm, T in INT_FORMS:
                one = {'intgrid': [e1, n1, dx, dy], 'form': nm}
                for what, f, args in (('joins', joins, (T(e1), T(n1), T(e1 + dx), T(n1 + dy))), ('rect2polar', rect2polar, (T(dx), T(dy)))):
                    st, r = rec.call(f, *args)
                    rec.nontriv(('intgrid', e1, n1, dx, dy, nm, what))
                    ok = st == 'ok' and abs(float(r[0]) - exp_d) <= 1e-12 * exp_d and 0.0 <= float(r[1]) < 360.0 and \
                        abs((float(r[1]) - exp_b + 180.0) % 360.0 - 180.0) <= 1e-9
                    if not ok:
                        rec.fail('%s between whole-number coordinates held as %s is not the distance and the bearing in [0, 360)' % (what, nm),
                                 site='survey:%s:number-form' % what, observed=r if st != 'ok' else [float(r[0]), float(r[1])], expected=[exp_d, exp_b],
                                 case=one, coords={'form': nm, 'dx': dx, 'dy': dy})
                        rec.outcome('intgrid-bad')
                    else:
                        rec.outcome('intgrid-ok')


def gen_plane(tier, seed):
    yield {'intgrid': True}
    bs = bearings(tier, seed)
    for o in ORIGINS:
        for L in LENGTHS:
            yield {'origin': list(o), 'len': L, 'brgs': bs}


def ev_plane(case, rec):
    if case.get('intgrid'):
        ev_intgrid(rec, case)
        rec.sample(case)
        return
    e1, n1 = case['origin']
    L = case['len']
    for b in case['brgs']:
        one = dict(case, brgs=[b])
        st, p2 = rec.call(radiations, e1, n1, b, L)
        if st != 'ok':
            rec.fail('radiations raised', site='survey:radiations', observed=p2, case=one)
            continue
        e2, n2 = p2
        st, j = rec.call(joins, e1, n1, e2, n2)
        if st != 'ok':
            rec.fail('joins raised', site='survey:joins', observed=j, case=one)
            continue
        d, brg = j
        rec.nontriv((e1, n1, L, b))
        rec.state(('j', float(d).hex(), float(brg).hex()))
        bad = False
        if not (0.0 <= brg < 360.0):
            bad = True
            rec.fail('bearing is not in [0, 360)', site='survey:joins:range', observed=brg, case=one)
        st, p3 = rec.call(radiations, e1, n1, brg, d)
        miss = math.hypot(p3[0] - e2, p3[1] - n2)
        # coordinates of magnitude 1e7 carry 2e-9 m of representation error
        tol = 1e-9 * d + 4e-9 * (1 if max(abs(e1), abs(n1)) > 1e6 else 0) + 1e-15
        rec.dev('join_radiate_over_tol', miss / tol, one)
        if not (miss <= tol):
            bad = True
            rec.fail('distance and bearing from joins, radiated from the first point, do not reproduce the second point (1e-9 d)',
                     site='survey:joins-radiations', observed=list(p3), expected=[e2, n2], tol=tol, case=one)
        # independent expectation for the radiated point and the polar/rect pair
        ex, ny = L * math.sin(math.radians(b)), L * math.cos(math.radians(b))
        if not (abs((e2 - e1) - ex) <= 1e-9 * L + 4e-9 and abs((n2 - n1) - ny) <= 1e-9 * L + 4e-9):
            bad = True
            rec.fail('radiations is not first point + d (sin b, cos b)', site='survey:radiations:value', observed=[e2, n2],
                     expected=[e1 + ex, n1 + ny], case=one)
        st, pr = rec.call(polar2rect, L, b)
        st2, rp = rec.call(rect2polar, ex, ny)
        if st != 'ok' or st2 != 'ok' or not (abs(pr[0] - ex) <= 1e-12 * L and abs(pr[1] - ny) <= 1e-12 * L and
                                            abs(rp[0] - L) <= 1e-12 * L and 0.0 <= rp[1] < 360.0 and
                                            abs((rp[1] - b + 180.0) % 360.0 - 180.0) <= 1e-9):
            bad = True
            rec.fail('polar2rect / rect2polar are not the clockwise-from-north polar conversion', site='convert:polar-rect',
                     observed=[pr, rp], expected=[[ex, ny], [L, b]], case=one)
        for rot, psf in ((10.0, 1.0), (-45.5, 0.9996), (359.0, 1.0004), (0.0, 2.0)):
            st, q = rec.call(radiations, e1, n1, b, L, rot, psf)
            qx, qy = e1 + psf * L * math.sin(math.radians(b + rot)), n1 + psf * L * math.cos(math.radians(b + rot))
            if st != 'ok' or not (abs(q[0] - qx) <= 1e-9 * L + 4e-9 and abs(q[1] - qy) <= 1e-9 * L + 4e-9):
                bad = True
                rec.fail('rotation / scale-factor arguments do not rotate and scale the radiated vector', site='survey:radiations:rotation-psf',
                         observed=q, expected=[qx, qy], case=one, coords={'rot': rot, 'psf': psf})
        rec.outcome('bad' if bad else 'ok')
    rec.sample({'case': dict(case, brgs=case['brgs'][:3])})


ZEN = [1e-6, 45.0, 89.999999, 90.0, 90.000001, 135.0, 179.999999, 180.000001, 225.0, 270.0, 315.0, 359.999999]
SLOPE = [0.1, 100.0, 5e4]
HTS = [-5.0, 0.0, 5.0, 1.6]


def gen_va(tier, seed):
    zs = uniq(ZEN + fill(3.0, 357.0, 7.0 if tier == 'quick' else 1.0, seed, 62))
    for z in zs:
        if z % 180.0 == 0.0:
            continue
        yield {'zen': z}


def ev_va(case, rec):
    z = case['zen']
    for s in SLOPE:
        st, r0 = rec.call(va_conv, z, s)
        if st != 'ok':
            rec.fail('va_conv raised on a valid zenith angle', site='survey:va_conv', observed=r0, case=case)
            return
        va, sd, hz, dh = r0
        rec.nontriv((z, s))
        rec.state(('va',) + tuple(float(v).hex() for v in r0))
        bad = False
        if not (abs(hz * hz + dh * dh - s * s) <= 1e-12 * s * s and abs(sd - s) <= 1e-12 * s and hz >= 0):
            bad = True
            rec.fail('horizontal distance and height difference do not satisfy Pythagoras with the slope distance', site='survey:va_conv:pythagoras',
                     observed=[hz, dh, sd], expected=s, case=case, coords={'slope': s})
        for hi in HTS:
            for ht in HTS:
                st, r = rec.call(va_conv, z, s, hi, ht)
                if st != 'ok':
                    bad = True
                    rec.fail('va_conv raised with instrument/target heights', site='survey:va_conv', observed=r, case=case)
                    continue
                if not (abs(r[2] - hz) <= 1e-12 * s and abs(r[3] - (dh + hi - ht)) <= 1e-12 * (s + 10) and
                        abs(r[1] ** 2 - (r[2] ** 2 + r[3] ** 2)) <= 1e-11 * (s + 10) ** 2):
                    bad = True
                    rec.fail('instrument and target heights must shift only the height difference', site='survey:va_conv:heights',
                             observed=list(r), expected=[hz, dh + hi - ht], case=case, coords={'slope': s, 'hi': hi, 'ht': ht})
        rec.outcome('bad' if bad else 'ok')
    rec.sample(case)


WAVE = [0.4, 0.5, 0.658, 0.85, 1.0, 1.6]
TEMP = [-20.0, 0.0, 15.0, 45.0]
PRES = [650.0, 1013.25, 1100.0]
HUM = [0.0, 0.2, 0.5, 0.99, 1.0, 1.01, 5.0, 50.0, 99.5, 100.0]      # incl. very dry air: a percentage below 1 is a percentage
CO2 = [300.0, 420.0, 600.0, 416.45, 300.5]      # whole and fractional ppm values (measured CO2 contents are not whole numbers)
DIST = [1.0, 1e3, 5e4]
NREF = 1.000281781


def gen_atm(tier, seed):
    ts = uniq(TEMP + fill(-20.0, 45.0, 13.0 if tier == 'quick' else 3.25, seed, 63))
    for w in WAVE:
        for t in ts:
            yield {'wave': w, 'temp': t}
    # temperatures evaluated one after the other in ONE process: -1 and -2 (which CPython hashes to the same value) in both
    # orders, as floats and as ints; the instrument parameters held in a float64 array that is reused for every call
    for w in (0.658, 0.85):
        yield {'wave': w, 'temps': [-1.0, -2.0, -1.0, 15.0, -2.0], 'parform': 'tuple'}
        yield {'wave': w, 'temps': [-2, -1, -2, 0, -1], 'parform': 'array'}
        yield {'wave': w, 'temps': [15.0, 15.0, 25.0], 'parform': 'array'}
        yield {'wave': w, 'temps': [15.0, -5.0], 'parform': 'unit'}


def ev_atm(case, rec):
    if 'temps' in case:
        shared = {}
        for t in case['temps']:
            c1 = {k: v for k, v in case.items() if k != 'temps'}
            c1['temp'] = t
            ev_atm1(c1, rec, shared)
        return
    ev_atm1(case, rec, {})


def ev_atm1(case, rec, shared):
    w, t = case['wave'], case['temp']
    if 'par' in shared:
        par = shared['par']
    else:
        st, par = rec.call(first_vel_params, w, None, NREF)
        if st != 'ok':
            rec.fail('first_vel_params raised', site='survey:first_vel_params', observed=par, case=case)
            return
        # the same instrument described by unit length and modulation frequency (Rueger eq. 6.3) gives the same parameters, and
        # both equal the published formulas
        ul = 10.0
        freq = 299792458.0 / (2.0 * ul * NREF)
        stu, paru = rec.call(first_vel_params, w, freq, None, ul)
        c_pub = (NREF - 1.0) * 1.0e6
        d_pub = (273.15 / 1013.25) * (287.6155 + 4.8866 / w ** 2 + 0.068 / w ** 4)
        for nm, pp in (('reference index', par), ('unit length and frequency', paru if stu == 'ok' else None)):
            if pp is None or not (abs(pp[0] - c_pub) <= 1e-6 and abs(pp[1] - d_pub) <= 1e-9 * d_pub):
                rec.fail('first velocity parameters C, D from the %s are not (n_ref - 1) 1e6 and 273.15/1013.25 (287.6155 + 4.8866/l^2 + 0.068/l^4)' % nm,
                         site='survey:first_vel_params:value', observed=paru if pp is None else list(pp), expected=[c_pub, d_pub], case=case,
                         coords={'wave': w, 'path': nm})
        if case.get('parform') == 'unit' and stu == 'ok':
            par = paru
        if case.get('parform') == 'array':
            par = np.array(par, dtype=float)
            shared['par'], shared['par0'] = par, par.tobytes()
    sig = 1.0 / w
    for p in PRES:
        for rh in HUM:
            co = {'wave': w, 'temp': t, 'pres': p, 'rh': rh}
            one = dict(case, pres=p, rh=rh)
            # closed form, humidity given
            vals = {}
            ok_all = True
            for d in DIST:
                st, c = rec.call(first_vel_corrn, d, par, t, p, rh)
                if st != 'ok':
                    ok_all = False
                    rec.fail('first velocity correction is not defined for a physically valid atmosphere (closed form)',
                             site='survey:first_vel_corrn:closed', observed=c, case=one, coords=co)
                    rec.outcome('raise-closed')
                    break
                vals[d] = c
            if ok_all:
                rec.nontriv((w, t, p, rh, 'closed'))
                rec.state(('fvc', float(vals[1e3]).hex()))
                if not all(abs(vals[d] - d * vals[1.0]) <= 1e-12 * d * (abs(vals[1.0]) + 1e-6) * 10 for d in DIST):
                    rec.fail('correction is not proportional to the measured distance', site='survey:first_vel_corrn:proportional',
                             observed=vals, case=one, coords=co)
            for x in CO2:
                cvals = {}
                okc = True
                for d in DIST:
                    st, c = rec.call(first_vel_corrn, d, par, t, p, rh, None, x, w)
                    if st != 'ok':
                        okc = False
                        rec.fail('first velocity correction is not defined for a physically valid atmosphere (CO2 form)',
                                 site='survey:first_vel_corrn:co2', observed=c, case=one, coords=dict(co, co2=x))
                        rec.outcome('raise-co2')
                        break
                    cvals[d] = c
                if not okc:
                    continue
                rec.nontriv((w, t, p, rh, x))
                e = humidity2part_water_vapour_press(rh, t)
                ng = 1.0 + group_refractivity(w, t, p, e, x) / 1.0e8
                for d in DIST:
                    exp = (NREF / ng - 1.0) * d
                    if not (abs(cvals[d] - exp) <= 1e-12 * d + 1e-9 * abs(exp)):
                        rec.fail('CO2-aware correction is not (reference index / ambient group index - 1) x distance',
                                 site='survey:first_vel_corrn:co2-value', observed=cvals[d], expected=exp, case=one, coords=dict(co, co2=x, d=d))
                if x == 420.0 and 0.5 <= w <= 1.0 and ok_all:
                    for d in DIST:
                        ppm = abs(cvals[d] - vals[d]) / d * 1e6
                        rec.dev('closed_vs_co2_ppm', ppm, one)
                        if not (ppm <= 1.0):
                            rec.fail('CO2-aware and closed-form corrections differ by more than 1 ppm at 420 ppm CO2',
                                     site='survey:first_vel_corrn:agreement', observed=cvals[d], expected=vals[d], tol='1 ppm',
                                     case=one, coords=dict(co, d=d, ppm=ppm))
                # dispersion: N_g = N_p + sigma dN_p/dsigma
                h = 1e-3 * sig

                def Np(s_):
                    return phase_refractivity(1.0 / s_, t, p, e, x)
                dN = (-Np(sig + 2 * h) + 8 * Np(sig + h) - 8 * Np(sig - h) + Np(sig - 2 * h)) / (12 * h)
                expg = Np(sig) + sig * dN
                got = group_refractivity(w, t, p, e, x)
                rel = abs(got - expg) / abs(expg)
                rec.dev('dispersion_rel', rel, one)
                if not (rel <= 1e-8):
                    rec.fail('group refractivity is not phase refractivity + sigma dN/dsigma', site='survey:group_refractivity:dispersion',
                             observed=got, expected=expg, tol=1e-8, case=one, coords=dict(co, co2=x))
                rec.outcome('atm-ok')
        # psychrometer form (wet-bulb temperature instead of humidity), incl. a wet bulb of exactly 0 C
        for wet in (t, t - 2.0, t - 5.0, t - 10.0, 0.0):
            if wet > t or wet < t - 12.0:
                continue
            st, c = rec.call(first_vel_corrn, 1000.0, par, t, p, None, wet)
            if st != 'ok':
                rec.fail('first velocity correction is not defined for a valid atmosphere given by a wet-bulb temperature',
                         site='survey:first_vel_corrn:wetbulb', observed=c, case=dict(case, pres=p, wet=wet), coords={'temp': t, 'wet': wet})
                rec.outcome('raise-wet')
                continue
            # one atmosphere, two descriptions: the psychrometer reading (t, t') fixes the vapour pressure
            # e = E_w(t') - 0.000662 p (t - t')  (saturation pressure AT THE WET BULB, Rueger 5.27 / 5.30, the formulas the function
            # documents); the same atmosphere described by the relative humidity 100 e / E_w(t) has the same correction
            def E_w(tt):
                return (1.0007 + 3.46e-6 * p) * 6.1121 * math.exp(17.502 * tt / (240.94 + tt))
            e_w = E_w(wet) - 0.000662 * p * (t - wet)
            rh = 100.0 * e_w / E_w(t)
            if 0.0 <= rh <= 100.0:
                st2, c2 = rec.call(first_vel_corrn, 1000.0, par, t, p, rh)
                rec.nontriv(('wet', repr(par), t, p, wet))
                if st2 != 'ok' or not abs(c - c2) <= 2e-5:
                    rec.fail('the correction for a psychrometer reading (dry %.1f C, wet %.1f C) differs from that of the same atmosphere described '
                             'by its relative humidity (%.3f %%) by more than 0.02 ppm' % (t, wet, rh), site='survey:first_vel_corrn:wetbulb-value',
                             observed=c, expected=c2, tol=2e-5, case=dict(case, pres=p, wet=wet), coords={'temp': t, 'wet': wet, 'pres': p})
                    rec.outcome('wet-bad')
                else:
                    rec.outcome('wet-ok')
    if 'par0' in shared and shared['par'].tobytes() != shared['par0']:
        rec.fail('first_vel_corrn modified the parameter array supplied by the caller', site='survey:first_vel_corrn:argument',
                 observed=shared['par'], case=case)
        shared['par0'] = shared['par'].tobytes()
    rec.sample(case)


# --- two threads reducing DIFFERENT observations at the same time ----------
from gpmc import threads as _thr
import datetime as _dtm
import numpy as _tnp
import geodepy.constants as _tgc
import geodepy.transform as _tgt
import geodepy.convert as _tgv
import geodepy.geodesy as _tgg
import geodepy.statistics as _tgs
import geodepy.survey as _tsv
import geodepy.angles as _tga
_V1 = [[1e-4, 2e-5, -1e-5], [2e-5, 4e-4, 3e-5], [-1e-5, 3e-5, 9e-4]]
_V2 = [[9e-3, -2e-3, 1e-3], [-2e-3, 5e-3, 2e-3], [1e-3, 2e-3, 7e-3]]
T_CALLS = {
    'fvc_a': lambda: (lambda: _tsv.first_vel_corrn(1117.8517, (281.781, 79.393), 6.8, 938.5, 58.0)),
    'fvc_b_co2': lambda: (lambda: _tsv.first_vel_corrn(5000.0, (281.781, 79.393), 31.5, 1010.0, 20.0, None, 450.0, 0.850)),
    'fvc_wet': lambda: (lambda: _tsv.first_vel_corrn(1000.0, (275.3, 79.1), 20.0, 1013.25, None, 15.0)),
    'group_m1': lambda: (lambda: _tsv.group_refractivity(0.85, -1.0, 1013.25, 0.0)),
    'group_m2': lambda: (lambda: _tsv.group_refractivity(0.85, -2.0, 1013.25, 0.0)),
    'phase': lambda: (lambda: _tsv.phase_refractivity(0.658, 25.0, 990.0, 12.0, 500)),
    'params': lambda: (lambda: _tsv.first_vel_params(0.850, 14985259, None, 10.0)),
    'va_conv': lambda: (lambda: _tsv.va_conv(84.9, 21.5, 1.6, 1.4)),
    'inst_ht': lambda: (lambda: _tsv.precise_inst_ht([89.0, 92.0, 90.0, 91.0], 0.5, 0.1)),
    'radiations': lambda: (lambda: _tsv.radiations(500000.0, 6000000.0, 45.5, 120.0, 0.2, 0.9996)),
    'joins': lambda: (lambda: _tsv.joins(500000.0, 6000000.0, 500100.0, 5999900.0)),
}
_tg, _te = _thr.make(T_CALLS, ['geodepy/survey.py'], 'survey:threads',
                     quick=['fvc_a', 'fvc_b_co2', 'group_m1', 'group_m2', 'va_conv', 'inst_ht'], triple=('fvc_a', 'fvc_b_co2', 'phase'))


from gpmc import callforms as _cf


from gpmc import interp as _ip


SUBCHECKS = [
    Sub('plane', gen_plane, ev_plane, chunk=2, floor=200, guard=True, envs=3),
    Sub('vaconv', gen_va, ev_va, chunk=4, floor=30, guard=True, envs=2),
    Sub('atmos', gen_atm, ev_atm, chunk=1, floor=100, guard=True, envs=2),
    Sub('threads', _tg, _te, chunk=1, floor=3, poison=False, fresh=True, timeout=7200),
    Sub('callforms', *_cf.make('C19', 'survey'), chunk=1, floor=1, guard=True),
    Sub('interpreter', *_ip.make('C19', 'survey'), chunk=1, floor=5, poison=False),
]


def bounds(tier, seed):
    return {'bearings': len(bearings(tier, seed)), 'lengths': LENGTHS, 'zenith': ZEN, 'wavelengths': WAVE, 'temperatures': TEMP,
            'pressures': PRES, 'humidity': HUM, 'co2': CO2, 'distances': DIST}
