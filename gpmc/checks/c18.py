"""C18 — editing a SINEX solution keeps exactly the remaining parameters and covariance.

Generated SINEX 2.02 files (gpmc.snxgen): stations 1..6 (quick) / 1..12 (thorough) x solution number 1..3 x
{positions, positions+velocities} x {L, U} x fixed SPD covariance (dense, and block-diagonal so that all-zero lines exist).
  remove   : remove_stns_sinex with EVERY subset of stations except "all" (2^n - 1, incl. none and all-but-one)
  velocity : remove_velocity_sinex        zeros : remove_matrixzeros_sinex        readers : the three readers
  clock    : the wall clock is a seam (geodepy.gnss.datetime substituted): every operation is repeated for each answer in
             {00:00:00, 00:00:09, 00:16:39, 00:16:40, 02:46:39, 02:46:40, 12:00:00, 23:59:59, 23:59:59.6} x day-of-year
             {001, 009, 099, 100, 365, 366}, enumerated as single deviations from the default answer (12:00:00, day 100) and all
             pairs on the small files; the outputs must be identical except for the time stamp itself
Oracle: a list of stations x parameters and a dense numpy matrix; editing = list deletion and numpy.delete; the output is
parsed by a strict fixed-column parser written from the SINEX 2.02 format.
"""
import datetime as _dt
import itertools
import os
import sys
import types

import numpy as np

if 'pandas' not in sys.modules:
    try:
        import pandas  # noqa: F401
    except Exception:
        sys.modules['pandas'] = types.ModuleType('pandas')      # geodepy.gnss imports pandas; the editing functions never use it

import geodepy.gnss as gn
from gpmc import snxgen
from gpmc.core import Sub, HarnessError, SCRATCH

PROPERTY = 'C18'
ASSUMPTIONS = [
    'files come from the generator only; the generator output is parsed by the strict parser and must reproduce the model '
    'before the implementation is run on it',
    'the clock seam replaces geodepy.gnss.datetime by a class whose now() returns the enumerated answer',
    'pandas is not installed in this image: a stub module is registered so that geodepy.gnss can be imported '
    '(the SINEX editing functions never touch it)',
    'read_sinex_matrix is compared with the tuple order its docstring documents',
]
TIMES = [(0, 0, 0, 0), (0, 0, 9, 0), (0, 16, 39, 0), (0, 16, 40, 0), (2, 46, 39, 0), (2, 46, 40, 0), (12, 0, 0, 0), (23, 59, 59, 0),
         (23, 59, 59, 600000)]
DOYS = [1, 9, 99, 100, 365, 366]
DEFAULT_CLOCK = [2020, 100, 12, 0, 0, 0]


class _Clock(object):
    current = None

    readings = []

    @classmethod
    def now(cls, tz=None):
        y, doy, h, m, s, us = cls.current[:6]
        t = _dt.datetime(y, 1, 1, h, m, s, us) + _dt.timedelta(days=doy - 1)
        if len(cls.current) > 6:
            # a running clock: every reading is later than the one before by the step (microseconds)
            t += _dt.timedelta(microseconds=cls.current[6] * len(cls.readings))
        cls.readings.append(t)
        return t

    @classmethod
    def strptime(cls, *a):
        return _dt.datetime.strptime(*a)


def set_clock(c):
    _Clock.current = tuple(c)
    _Clock.readings = []
    gn.datetime = _Clock


def workdir():
    d = os.path.join(SCRATCH, 'c18_%d' % os.getpid())
    os.makedirs(d, exist_ok=True)
    os.chdir(d)
    return d


def make(case):
    snxgen.set_names(case.get('names'))
    m = snxgen.model(case['nstn'], case['soln'], case['vel'], case.get('blockdiag', False), case.get('order', 'station'),
                     dup=case.get('dup', 0), cancel=bool(case.get('cancel')))
    if case.get('ctime'):
        m['ctime'] = case['ctime']      # creation time of the INPUT file (it may coincide textually with the data start / end epoch)
    if case.get('comments'):
        m['comments'] = case['comments']
    d = workdir()
    path = os.path.join(d, 'in.snx')
    snxgen.write(path, m, case['tri'], extra=bool(case.get('extra')))
    p = snxgen.parse(path)
    pl = snxgen.param_list(m)
    if p['npar'] != len(pl) or [e['value'] for e in p['est']] != m['est'] or not np.array_equal(p['Q'], m['Q']) or p['vel'] != m['vel']:
        raise HarnessError('generated SINEX file does not reproduce the model through the strict parser')
    return m, path, p


def clocks_single():
    out = [list(DEFAULT_CLOCK)]
    for t in TIMES:
        out.append([2020, 100] + list(t))
    for d in DOYS:
        out.append([2020, d, 12, 0, 0, 0])
    out.append([2021, 1, 0, 0, 0, 0])
    out.append([2019, 365, 23, 59, 59, 600000])
    return out


def clocks_pairs():
    out = [[2020, d] + list(t) for d in DOYS for t in TIMES]
    # running clocks: the wall clock advances between two readings (1 us, 1 ms, 0.7 s, 1 s), starting just before a
    # second / minute / midnight / year boundary
    for (y, d) in ((2020, 100), (2020, 366), (2021, 365), (2019, 365), (2020, 59), (2020, 9), (2020, 99)):
        for t in ((23, 59, 59, 999999), (23, 59, 59, 400000), (23, 59, 58, 999000), (0, 0, 0, 0), (12, 34, 59, 999500), (2, 46, 39, 999999)):
            for step in (1, 1000, 700000, 1000000):
                out.append([y, d] + list(t) + [step])
    return out


def normalise(lines):
    """output lines with the time stamp fields blanked"""
    out = []
    for i, ln in enumerate(lines):
        if i == 0:
            ln = ln[:15] + 'YY:DDD:SSSSS' + ln[27:]
        if ln.startswith('* File created by Geodepy'):
            ln = '* File created by Geodepy <stamp>'
        out.append(ln)
    return out


def path_form(path, form):
    """the same file named in another legal way"""
    import pathlib
    if form == 'Path':
        return pathlib.Path(path)
    if form == 'bytes':
        return os.fsencode(path)
    if form == 'relative':
        return os.path.relpath(path)
    if form == 'dotted':
        return os.path.join(os.path.dirname(path), '.', os.path.basename(path))
    return path


def arg_form(arg, form):
    """the same stations in another container"""
    if form == 'tuple':
        return tuple(arg)
    if form == 'set':
        return set(arg)
    if form == 'frozenset':
        return frozenset(arg)
    if form == 'nparray':
        return np.array(list(arg))
    if form == 'dictkeys':
        return dict.fromkeys(arg).keys()
    if form == 'reversed-list':
        return list(reversed(arg))
    if form == 'duplicated':
        return list(arg) + list(arg)
    return arg


def run_op(rec, op, path, arg, clock, one, co):
    set_clock(clock)
    out = os.path.join(os.getcwd(), 'output.snx')
    if os.path.exists(out):
        os.remove(out)
    if one.get('pathform'):
        path = path_form(path, one['pathform'])
    if one.get('argform') and arg is not None:
        arg = arg_form(arg, one['argform'])
    if op == 'remove':
        st, r = rec.call(gn.remove_stns_sinex, path, arg)
    elif op == 'velocity':
        st, r = rec.call(gn.remove_velocity_sinex, path)
    else:
        st, r = rec.call(gn.remove_matrixzeros_sinex, path)
    clk = 'doy%03d-%02d:%02d:%02d.%d' % (clock[1], clock[2], clock[3], clock[4], clock[5] // 100000)
    if st != 'ok':
        rec.state(('raise', op, type(r).__name__))
        rec.fail('%s raised (clock %s)' % (op, clk), site='gnss:%s:raise' % op, observed=r, case=one,
                 coords=dict(co, clock=clk, seconds=clock[2] * 3600 + clock[3] * 60 + clock[4]))
        return None
    try:
        return snxgen.parse(out)
    except snxgen.Malformed as e:
        msg = str(e)
        rec.state(('malformed', op, msg[:40]))
        cls = ('header' if 'header' in msg or 'creation' in msg or 'parameter count' in msg or 'solution-content' in msg else
               'endsnx' if 'ENDSNX' in msg else 'closing' if 'clos' in msg else 'matrix' if 'matrix' in msg else 'other')
        rec.fail('%s wrote a malformed SINEX file: %s (clock %s)' % (op, msg[:160], clk), site='gnss:%s:malformed:%s' % (op, cls), observed=msg[:300],
                 case=one, coords=dict(co, clock=clk, seconds=clock[2] * 3600 + clock[3] * 60 + clock[4]))
        return None
    except Exception as e:
        rec.fail('%s wrote a file the strict parser cannot read: %r' % (op, e), site='gnss:%s:malformed:other' % op, observed=repr(e), case=one, coords=co)
        return None


def check_removed(rec, m, p_in, p, removed, one, co, op):
    pl = snxgen.param_list(m)
    if op == 'velocity':
        keep = [i for i, (t, c, s) in enumerate(pl) if t.startswith('STA')]
        exp_vel = False
    else:
        keep = [i for i, (t, c, s) in enumerate(pl) if c not in removed]
        exp_vel = m['vel']
    bad = []
    if p['npar'] != len(keep):
        bad.append(('header parameter count', p['npar'], len(keep)))
    if p['vel'] != exp_vel:
        bad.append(('header velocity flag', p['vel'], exp_vel))
    if p['header'][:15] != p_in['header'][:15] or p['header'][27:60] != p_in['header'][27:60]:
        # everything in the first line but the creation time, the parameter count and the velocity flag is the input's
        bad.append(('header fields (agency / data span) changed', p['header'][:60], p_in['header'][:60]))
    got = [(e['type'], e['code'], e['soln'], e['value'], e['sd']) for e in p['est']]
    exp = [(pl[i][0], pl[i][1], str(pl[i][2]), m['est'][i], m['sd'][i]) for i in keep]
    if got != exp:
        bad.append(('estimates', got[:4], exp[:4]))
    if [e['rest'] for e in p['est']] != [p_in['est'][i]['rest'] for i in keep]:
        bad.append(('estimate lines changed beyond the index', None, None))
    Qe = m['Q'][np.ix_(keep, keep)] if keep else np.zeros((0, 0))
    if p['Q'].shape != Qe.shape or not np.array_equal(p['Q'], Qe):
        nbad = int(np.sum(~(p['Q'] == Qe))) if p['Q'].shape == Qe.shape else -1
        bad.append(('covariance matrix', 'shape %s, %d differing/missing elements' % (p['Q'].shape, nbad), 'numpy.delete of the model'))
    if p['tri'] != p_in['tri']:
        bad.append(('triangle', p['tri'], p_in['tri']))
    if op == 'remove':
        exp_sites = [ln for ln in p_in['site_lines'] if ln[1:5] not in removed]
        exp_ep = [ln for ln in p_in['epoch_lines'] if ln[1:5] not in removed]
    else:
        exp_sites, exp_ep = p_in['site_lines'], p_in['epoch_lines']
    if p['site_lines'] != exp_sites or p['epoch_lines'] != exp_ep:
        bad.append(('SITE/ID or SOLUTION/EPOCHS lines', None, None))
    for what, g, e in bad:
        rec.fail('edited file does not keep exactly the remaining parameters: %s' % what, site='gnss:%s:content:%s' % (op, what.split()[0]),
                 observed=g, expected=e, case=one, coords=co)
    return not bad


# ------------------------------------------------------------------------------------------------
def configs(tier):
    ns = [1, 2, 3, 4, 5, 6, 8] if tier == 'quick' else [1, 2, 3, 4, 5, 6, 7, 8, 10, 12]
    out = []
    k = 0
    for n in ns:
        for vel in (False, True):
            for tri in ('L', 'U'):
                if n > 8 and (vel or tri == 'U') and n != 12:
                    continue
                if n == 12 and vel:
                    continue
                out.append({'nstn': n, 'soln': 1 + k % 3, 'vel': vel, 'tri': tri, 'extra': k % 3 == 1})
                k += 1
    return out


def gen_remove(tier, seed):
    for cfg in configs(tier):
        names = snxgen.codes(cfg['nstn'])
        subsets = [list(s) for r in range(0, cfg['nstn']) for s in itertools.combinations(names, r)]
        for i in range(0, len(subsets), 64):
            yield dict(cfg, subsets=subsets[i:i + 64])
    # site codes that also occur as substrings of block headers and comment lines
    for cfg in configs(tier):
        if cfg['nstn'] in (2, 3, 5):
            snxgen.set_names('keywords')
            names = snxgen.codes(cfg['nstn'])
            snxgen.set_names(None)
            subsets = [list(s) for r in range(0, cfg['nstn']) for s in itertools.combinations(names, r)]
            yield dict(cfg, subsets=subsets[:64], names='keywords')
            snxgen.set_names('mixedcase')
            names = snxgen.codes(cfg['nstn'])
            snxgen.set_names(None)
            subsets = [list(s) for r in range(0, cfg['nstn']) for s in itertools.combinations(names, r)]
            yield dict(cfg, subsets=subsets[:64], names='mixedcase')
    # sites with two solutions (a discontinuity: solution numbers n and n + 1 under one site code): one SITE/ID line, two
    # SOLUTION/EPOCHS lines and two parameter groups per such site
    for cfg in configs(tier):
        if cfg['nstn'] in (2, 3, 4):
            names = snxgen.codes(cfg['nstn'])
            subsets = [list(s) for r in range(0, cfg['nstn']) for s in itertools.combinations(names, r)]
            for dup in (1, 2):
                yield dict(cfg, subsets=subsets[:64], dup=dup, soln=1)
    # other legal parameter orders of the estimate / matrix blocks (all positions then all velocities, velocities first,
    # X-VX pairs, stations in reverse order)
    for cfg in configs(tier):
        if cfg['nstn'] in (2, 3, 4) or (tier == 'thorough' and cfg['nstn'] <= 6):
            names = snxgen.codes(cfg['nstn'])
            subsets = [list(s) for r in range(0, cfg['nstn']) for s in itertools.combinations(names, r)]
            for order in (snxgen.ORDERS[1:] if cfg['vel'] else ['reversed']):
                yield dict(cfg, subsets=subsets[:64], order=order)
    # comment lines are optional: data blocks without their column-header comment, or with two comment lines
    for cfg in configs(tier):
        if cfg['nstn'] in (2, 3, 5):
            names = snxgen.codes(cfg['nstn'])
            subsets = [list(s) for r in range(0, cfg['nstn']) for s in itertools.combinations(names, r)]
            for cm in COMMENT_FORMS:
                yield dict(cfg, subsets=subsets[:64], comments=cm)


COMMENT_FORMS = ['none', 'double']


def ev_remove(case, rec):
    m, path, p_in = make(case)
    for sub in case['subsets']:
        one = dict(case, subsets=[sub])
        co = {'nstn': case['nstn'], 'vel': case['vel'], 'tri': case['tri'], 'removed': len(sub)}
        arg = list(sub)
        p = run_op(rec, 'remove', path, arg, DEFAULT_CLOCK, one, co)
        rec.nontriv((case['nstn'], case['soln'], case['vel'], case['tri'], tuple(sub), case.get('order'), case.get('dup')))
        if arg != list(sub):
            rec.fail('remove_stns_sinex modified the caller\'s list of stations', site='gnss:remove:argument', observed=arg, expected=list(sub),
                     case=one, coords=co)
        elif p is not None and case['nstn'] <= 4:
            # depth 2: the SAME list object again (a batch over several files reuses it): the result must be the same
            p2 = run_op(rec, 'remove', path, arg, DEFAULT_CLOCK, one, co)
            if p2 is None or normalise(p2['lines']) != normalise(p['lines']):
                rec.fail('a second removal with the same list object gives a different file', site='gnss:remove:second-call',
                         observed=None if p2 is None else p2['npar'], expected=p['npar'], case=one, coords=co)
        if p is not None and sub and case['nstn'] <= 5 and not case.get('order'):
            # the same stations in another container, the same file named in another way: the same output
            k = (len(sub) + case['nstn']) % 7
            af = ['tuple', 'set', 'frozenset', 'nparray', 'dictkeys', 'reversed-list', 'duplicated'][k]
            pf = ['Path', 'bytes', 'relative', 'dotted'][k % 4]
            for extra in ({'argform': af}, {'pathform': pf}):
                pe = run_op(rec, 'remove', path, list(sub), DEFAULT_CLOCK, dict(one, **extra), co)
                if pe is None or normalise(pe['lines']) != normalise(p['lines']):
                    rec.fail('removal gives a different file when %s' % ('the stations are given as a %s' % af if 'argform' in extra
                                                                         else 'the file is named by a %s path' % pf),
                             site='gnss:remove:input-form', observed=None if pe is None else pe['npar'], expected=p['npar'],
                             case=dict(one, **extra), coords=dict(co, **extra))
        if p is None:
            rec.outcome('malformed')
            continue
        rec.state(('rm', case['nstn'], case['vel'], case['tri'], tuple(sub), p['npar']))
        rec.outcome('ok' if check_removed(rec, m, p_in, p, set(sub), one, co, 'remove') else 'content-bad')
    rec.sample(dict(case, subsets=case['subsets'][:3]))


def gen_other(tier, seed):
    for cfg in configs(tier):
        if cfg['nstn'] > 6 and tier == 'quick':
            continue
        yield dict(cfg, op='velocity') if cfg['vel'] else dict(cfg, op='zeros', blockdiag=True)
        yield dict(cfg, op='zeros', blockdiag=False)
        yield dict(cfg, op='readers')
        if cfg['nstn'] in (3, 5):
            yield dict(cfg, op='velocity' if cfg['vel'] else 'zeros', names='keywords', blockdiag=not cfg['vel'])
            yield dict(cfg, op='readers', names='keywords')
            yield dict(cfg, op='velocity' if cfg['vel'] else 'zeros', names='mixedcase', blockdiag=not cfg['vel'])
            yield dict(cfg, op='readers', names='mixedcase')
        if cfg['nstn'] in (2, 4):
            # an input file whose creation time reads exactly like its data start / data end epoch: only the creation time changes
            for ct in ('20:100:00000', '20:093:00000'):
                yield dict(cfg, op='velocity' if cfg['vel'] else 'zeros', ctime=ct, blockdiag=not cfg['vel'])
                yield dict(cfg, op='zeros', ctime=ct, blockdiag=False)
                yield dict(cfg, op='remove1', ctime=ct)
        if cfg['nstn'] in (2, 3, 5):
            # covariance lines whose values cancel exactly are not all-zero lines; sites with two solutions
            yield dict(cfg, op='zeros', blockdiag=False, cancel=True)
            yield dict(cfg, op='zeros', blockdiag=True, cancel=True)
            yield dict(cfg, op='velocity' if cfg['vel'] else 'zeros', dup=1, soln=1, blockdiag=not cfg['vel'], cancel=True)
        if cfg['nstn'] <= 7:
            for order in (snxgen.ORDERS[1:] if cfg['vel'] else ['reversed']):
                yield dict(cfg, op='velocity' if cfg['vel'] else 'zeros', order=order, blockdiag=not cfg['vel'])
        if cfg['nstn'] in (2, 3, 5):
            for cm in COMMENT_FORMS:
                yield dict(cfg, op='readers', comments=cm)
                yield dict(cfg, op='zeros', blockdiag=False, comments=cm)
                yield dict(cfg, op='velocity' if cfg['vel'] else 'zeros', blockdiag=not cfg['vel'], comments=cm)


def ev_other(case, rec):
    m, path, p_in = make(case)
    op = case['op']
    co = {'nstn': case['nstn'], 'vel': case['vel'], 'tri': case['tri'], 'op': op}
    rec.nontriv((op, case['nstn'], case['soln'], case['vel'], case['tri'], case.get('blockdiag'), case.get('order'), case.get('dup'), case.get('cancel')))
    if op == 'remove1':
        first = [snxgen.codes(case['nstn'])[0]]
        p = run_op(rec, 'remove', path, first, DEFAULT_CLOCK, case, co)
        if p is not None:
            rec.state(('rm1', case['nstn'], case['tri'], p['npar']))
            rec.outcome('ok' if check_removed(rec, m, p_in, p, set(first), case, co, 'remove') else 'content-bad')
    elif op == 'velocity':
        p = run_op(rec, 'velocity', path, None, DEFAULT_CLOCK, case, co)
        if p is not None:
            rec.state(('vel', case['nstn'], case['tri'], p['npar']))
            rec.outcome('ok' if check_removed(rec, m, p_in, p, set(), case, co, 'velocity') else 'content-bad')
    elif op == 'zeros':
        p = run_op(rec, 'zeros', path, None, DEFAULT_CLOCK, case, co)
        if p is not None:
            rec.state(('zeros', case['nstn'], case['tri'], case.get('blockdiag')))
            mb_in = [ln for ln in p_in['blocks']['SOLUTION/MATRIX_ESTIMATE']['lines']]
            keep = []
            for ln in mb_in:
                vals = ln[12:].split() if not ln.startswith('*') else ['x']
                if not ln.startswith('*') and all(float(v) == 0.0 for v in vals):
                    continue
                keep.append(ln)
            bad = []
            if p['blocks']['SOLUTION/MATRIX_ESTIMATE']['lines'] != keep:
                bad.append('matrix lines')
            for b in ('SITE/ID', 'SOLUTION/EPOCHS', 'SOLUTION/ESTIMATE'):
                if p['blocks'][b]['lines'] != p_in['blocks'][b]['lines']:
                    bad.append(b)
            if p['header'][:15] + p['header'][27:] != p_in['header'][:15] + p_in['header'][27:]:
                bad.append('header')
            for b in bad:
                rec.fail('removing all-zero matrix lines changed other lines: %s' % b, site='gnss:zeros:content:%s' % b.split()[0], observed=b,
                         case=case, coords=co)
            rec.outcome('ok' if not bad else 'content-bad')
    else:
        # the three readers
        pl = snxgen.param_list(m)
        per = 6 if m['vel'] else 3
        st, est = rec.call(gn.read_sinex_estimate, path)
        if st != 'ok':
            rec.fail('read_sinex_estimate raised', site='gnss:read_sinex_estimate:raise', observed=est, case=case, coords=co)
        else:
            exp = []
            for i, (c, s) in enumerate(m['stations']):
                v = m['est'][per * i:per * i + per]
                d = m['sd'][per * i:per * i + per]
                row = (c, str(s), '20:096:43200', v[0], v[1], v[2], d[0], d[1], d[2])
                if m['vel']:
                    row += (v[3], v[4], v[5], d[3], d[4], d[5])
                exp.append(row)
            if [tuple(r) for r in est] != exp:
                rec.fail('read_sinex_estimate does not return exactly the values written', site='gnss:read_sinex_estimate:value',
                         observed=[list(r) for r in est][:2], expected=[list(r) for r in exp][:2], case=case, coords=co)
        st, mat = rec.call(gn.read_sinex_matrix, path)
        if st != 'ok':
            rec.fail('read_sinex_matrix raised', site='gnss:read_sinex_matrix:raise', observed=mat, case=case, coords=co)
        else:
            Q = m['Q']
            exp = []
            for i, (c, s) in enumerate(m['stations']):
                b = per * i
                row = (c, str(s), Q[b, b], Q[b, b + 1], Q[b, b + 2], Q[b + 1, b + 1], Q[b + 1, b + 2], Q[b + 2, b + 2])
                if m['vel']:
                    v = b + 3
                    row += (Q[v, v], Q[v, v + 1], Q[v, v + 2], Q[v + 1, v + 1], Q[v + 1, v + 2], Q[v + 2, v + 2])
                exp.append(tuple(float(x) if not isinstance(x, str) else x for x in row))
            got = [tuple(float(x) if not isinstance(x, str) else x for x in r) for r in mat]
            if got != exp:
                rec.fail('read_sinex_matrix does not return (code, soln, var_x, covar_xy, covar_xz, var_y, covar_yz, var_z, ...) as written',
                         site='gnss:read_sinex_matrix:value:' + case['tri'], observed=[list(r) for r in got][:2], expected=[list(r) for r in exp][:2],
                         case=case, coords=co)
        st, sites = rec.call(gn.read_sinex_sites, path)
        if st != 'ok':
            rec.fail('read_sinex_sites raised', site='gnss:read_sinex_sites:raise', observed=sites, case=case, coords=co)
        else:
            bad = []
            for i, (r, (c, s)) in enumerate(zip(sites, m['stations'])):
                lon, lat = snxgen.site_lonlat(i)[2:]
                if r[0] != c or r[1] != 'A' or r[2] != snxgen.domes(i) or r[3] != 'P' or abs(r[5].dec() - lon) > 1e-12 or abs(r[6].dec() - lat) > 1e-12:
                    bad.append(('site fields', list(map(str, r[:7]))))
                if r[7] != m['heights'][i]:
                    bad.append(('height', r[7], m['heights'][i]))
            if len(sites) != len(m['stations']):
                bad.append(('count', len(sites)))
            if bad:
                rec.fail('read_sinex_sites does not return exactly the values written', site='gnss:read_sinex_sites:value:' + bad[0][0].split()[0],
                         observed=bad[:3], case=case, coords=co)
        rec.outcome('readers')
    rec.sample(case)


def gen_clock(tier, seed):
    small = [{'nstn': 2, 'soln': 1, 'vel': False, 'tri': 'L'}, {'nstn': 2, 'soln': 2, 'vel': True, 'tri': 'U'},
             {'nstn': 3, 'soln': 3, 'vel': True, 'tri': 'L'}, {'nstn': 3, 'soln': 1, 'vel': False, 'tri': 'U'}]
    for cfg in small:
        for op in ('remove', 'zeros') + (('velocity',) if cfg['vel'] else ()):
            yield dict(cfg, op=op, clocks='pairs')
    for cfg in configs(tier):
        if cfg['nstn'] >= 4:
            yield dict(cfg, op='remove', clocks='single')


def ev_clock(case, rec):
    m, path, p_in = make(case)
    op = case['op']
    arg = [snxgen.codes(case['nstn'])[0]] if op == 'remove' else None
    co = {'nstn': case['nstn'], 'vel': case['vel'], 'tri': case['tri'], 'op': op}
    ref = run_op(rec, op, path, arg, DEFAULT_CLOCK, case, co)
    ref_lines = normalise(ref['lines']) if ref is not None else None
    for clock in (clocks_pairs() if case['clocks'] == 'pairs' else clocks_single()):
        one = dict(case, clocks=[clock])
        p = run_op(rec, op, path, arg, clock, one, co)
        rec.nontriv((op, case['nstn'], case['vel'], case['tri'], tuple(clock)))
        if p is None:
            rec.outcome('clock-bad')
            continue
        rec.state(('clk', op, p['creation']))
        # the stamp itself must be the substituted time
        y, doy, h, mi, s, us = clock[:6]
        exp = '%02d:%03d:%05d' % (y % 100, doy, h * 3600 + mi * 60 + s)
        alt = '%02d:%03d:%05d' % (y % 100, doy, min(h * 3600 + mi * 60 + s + (1 if us >= 500000 else 0), 86399))
        okset = {exp, alt}
        if len(clock) > 6:
            # running clock: the stamp must be the encoding of ONE instant the clock showed during the run
            okset = set()
            for t in _Clock.readings:
                sod = t.hour * 3600 + t.minute * 60 + t.second
                okset.add('%02d:%03d:%05d' % (t.year % 100, t.timetuple().tm_yday, sod))
                if t.microsecond >= 500000 and sod < 86399:
                    okset.add('%02d:%03d:%05d' % (t.year % 100, t.timetuple().tm_yday, sod + 1))
            exp = sorted(okset)
        if p['creation'] not in okset:
            rec.fail('creation time in the header is not the time of the run as YY:DDD:SSSSS', site='gnss:%s:creation-time' % op, observed=p['creation'],
                     expected=exp, case=one, coords=co)
        if ref_lines is not None and normalise(p['lines']) != ref_lines:
            rec.fail('the edited file depends on the wall-clock time beyond the time stamp itself', site='gnss:%s:clock-dependent' % op,
                     observed=[a for a, b in zip(normalise(p['lines']), ref_lines) if a != b][:3], case=one, coords=co)
            rec.outcome('clock-bad')
        else:
            rec.outcome('clock-ok')
    rec.sample(dict(case, clock_answers=len(clocks_pairs()) if case['clocks'] == 'pairs' else len(clocks_single())))


def ev_clock_single(case, rec):
    if isinstance(case.get('clocks'), list):
        m, path, p_in = make(case)
        op = case['op']
        arg = [snxgen.codes(case['nstn'])[0]] if op == 'remove' else None
        run_op(rec, op, path, arg, case['clocks'][0], case, {})
        return
    ev_clock(case, rec)


from gpmc import interp as _ip


SUBCHECKS = [
    Sub('remove', gen_remove, ev_remove, chunk=1, floor=100, guard=True, envs=2),
    Sub('other', gen_other, ev_other, chunk=2, floor=20, guard=True, envs=1),
    Sub('clock', gen_clock, ev_clock_single, chunk=1, floor=100, guard=True, envs=1),
    Sub('interpreter', *_ip.make('C18', 'gnss'), chunk=1, floor=5, poison=False),
]


for _s in SUBCHECKS:
    _s.proc_ignore = ('cwd',)      # the editing functions write ./output.snx: the harness works in a scratch directory

def bounds(tier, seed):
    return {'configs': configs(tier), 'clock_times': TIMES, 'clock_doys': DOYS, 'subsets': 'every subset except all stations'}
