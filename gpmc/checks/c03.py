"""C03 — geodetic <-> Cartesian conversion is exact and self-inverse on every ellipsoid.

  geo     : llh2xyz on ellipsoids x latitude (incl. 0, +-90) x longitude [-360, 360] x height x input types,
            against the closed form in 40-digit arithmetic (<= 1 um); then xyz2llh (depth 2), its result
            re-projected BY THE ORACLE must reproduce the Cartesian input (<= 0.02 mm), lon in [-180, 180]
  cart    : lattice placed directly in Cartesian space (all octants, near-axis p swept by quarter decades down to 1e-9 m (1e-12 thorough),
            heights classified by the oracle inverse to [-1e4, 4e7])
"""
import math

import mpmath as mp

from geodepy.convert import llh2xyz, xyz2llh
from gpmc import cfg
from gpmc import oracle_misc as om
from gpmc.cfg import ELLS, ELL_AF, uniq, fill
from gpmc.core import Sub, HarnessError

PROPERTY = 'C03'
TOL_FWD = 1e-6
TOL_BACK = 2e-5
ASSUMPTIONS = [
    'closed form evaluated with mpmath at 40 digits on the exact binary values of the float arguments',
    'the back-conversion is judged by re-projecting its result with the oracle (no reference inverse needed)',
    'continuum decided on a lattice (structural points + regular fill + seed-shifted fill)',
    'arbitrary (a, 1/f): 1/f from 150 (the flattest body of C01) up to infinity (the sphere); flatter bodies are not explored',
]
HEIGHTS = [-1e4, 0.0, 1e3, 1e5, 4e7]
# values that software likes to reserve for 'no data': inside [-1e4, 4e7] they are heights like any other
SENTINEL_HEIGHTS = [-9999.0, -999.0, -99.0, -1.0, 9999.0, 99999.0, 32767.0, 65535.0]


def lats(tier, seed):
    s = [-90.0, -89.9999, -89.0, -45.0, -1e-9, 0.0, 1e-9, 45.0, 89.0, 89.9999, 90.0, -1e-12, 1e-12, 30.0, -60.0]
    return uniq(s + fill(-88.0, 88.0, 8.0 if tier == 'quick' else 2.0, seed, 11))


def lons(tier, seed):
    s = [-360.0, -270.0, -180.0, -90.0, -1e-9, 0.0, 1e-9, 90.0, 180.0, 270.0, 360.0, 133.882, -179.999999, 179.999999]
    return uniq(s + fill(-350.0, 350.0, 50.0 if tier == 'quick' else 12.5, seed, 12))


def gen_geo(tier, seed):
    lo = lons(tier, seed)
    for ell in cfg.E9 + cfg.TWINS + cfg.NEAR_SPHERES:
        for lat in lats(tier, seed):
            for h in HEIGHTS + (SENTINEL_HEIGHTS if ell in ('grs80', 'ans', 'sphere') and abs(lat) in (0.0, 30.0, 45.0, 60.0, 90.0) else []):
                yield {'ell': ell, 'lat': lat, 'h': h, 'lons': lo, 'kind': 'float'}
    for ell in ('grs80', 'intl24'):
        for lat in (-89.5, -37.8, -0.3, 0.0, 0.3, 60.25, 90.0):
            for kind in cfg.INTYPES[1:] + cfg.NUMFORMS:
                yield {'ell': ell, 'lat': lat, 'h': 39.6514, 'lons': [-179.5, -0.45, 0.0, 0.15, 144.97], 'kind': kind}
        # numbers given as text (float() reads them): every way Python itself writes a float, incl. exponent notation for
        # tiny / huge magnitudes ('2.5e-05'), a leading '+', surrounding blanks
        for lat in (-89.5, -37.8, -7.5e-05, -1e-09, 0.0, 2.5e-05, 60.25, 90.0):
            for kind in ('text', 'text%e', 'text+', 'text '):
                yield {'ell': ell, 'lat': lat, 'h': 39.6514, 'lons': [-179.5, -7.5e-05, 0.0, 1e-09, 2.5e-05, 144.97], 'kind': kind}


def back_check(rec, ell, xyz, one, site_prefix, co):
    a, invf = ELL_AF[ell]
    st, r = rec.call(xyz2llh, xyz[0], xyz[1], xyz[2], cfg.ell_obj(ell))
    if st != 'ok':
        rec.fail('xyz2llh raised on a point off the rotation axis', site=site_prefix + ':raise', observed=r, case=one, coords=co)
        return
    if not (isinstance(r, tuple) and len(r) == 3 and all(isinstance(v, (int, float)) and not isinstance(v, bool) for v in r)):
        rec.fail('xyz2llh did not return three numbers (latitude, longitude, height)', site=site_prefix + ':result-type', observed=repr(r), case=one, coords=co)
        return
    lat2, lon2, h2 = r
    rec.state(('llh', ell, float(lat2).hex(), float(lon2).hex(), float(h2).hex()))
    if not (-180.0 <= lon2 <= 180.0) or not (-90.0 <= lat2 <= 90.0):
        rec.fail('xyz2llh returned a longitude outside [-180, 180] or latitude outside [-90, 90]', site=site_prefix + ':range',
                 observed=[lat2, lon2], case=one, coords=co)
    back = om.llh2xyz_mp(lat2, lon2, h2, a, invf)
    err = float(om.dist3(back, xyz))
    rec.dev('back_m', err, one)
    if err > TOL_BACK or err != err:
        rec.fail('Cartesian->geodetic result does not convert back to the input within 0.02 mm', site=site_prefix + ':back',
                 observed=[lat2, lon2, h2], expected='re-projection error %.3e m' % err, tol=TOL_BACK, case=one,
                 coords=dict(co, err=err))
        rec.outcome('back-bad')
    else:
        rec.outcome('back-ok')


TEXT_FORMS = {'text': repr, 'text%e': lambda v: '%.17e' % v, 'text+': lambda v: ('+' if v >= 0 else '') + repr(v), 'text ': lambda v: ' %r\n' % v}


def ev_text(rec, case, one, lat, lon, h, ell, kind):
    """latitude / longitude given as numeric text: the result is the result for the number the text denotes (read by float())"""
    w = TEXT_FORMS[kind]
    co = {'ell': ell, 'lat': lat, 'lon': lon, 'h': h, 'form': kind}
    st0, r0 = rec.call(llh2xyz, lat, lon, h, cfg.ell_obj(ell))
    for nm, a1, a2 in (('text,text', w(lat), w(lon)), ('text,float', w(lat), lon), ('float,text', lat, w(lon))):
        if float(a1) != lat or float(a2) != lon:
            raise HarnessError('text form %r does not denote the lattice value' % ((a1, a2),))
        st, r = rec.call(llh2xyz, a1, a2, h, cfg.ell_obj(ell))
        rec.nontriv((ell, lat, lon, h, kind, nm))
        rec.state(('xyz-text', ell, nm, repr(r)))
        if st != st0 or (st == 'ok' and tuple(r) != tuple(r0)):
            rec.fail('latitude / longitude given as numeric text (%s: %r, %r) give a different result from the numbers they denote' % (nm, a1, a2),
                     site='convert:llh2xyz:text-form', observed=r if st != 'ok' else list(r), expected=r0 if st0 != 'ok' else list(r0),
                     case=one, coords=dict(co, mix=nm))
            rec.outcome('text-bad')
        else:
            rec.outcome('text-ok')


def ev_geo(case, rec):
    ell = case['ell']
    a, invf = ELL_AF[ell]
    lat, h, kind = case['lat'], case['h'], case['kind']
    for lon in case['lons']:
        one = dict(case, lons=[lon])
        if kind == 'float':
            la, lo = lat, lon
        elif kind.startswith('text'):
            ev_text(rec, case, one, lat, lon, h, ell, kind)
            continue
        else:
            try:
                la, lo = cfg.as_type(lat, kind), cfg.as_type(lon, kind)
            except Exception:
                rec.skip('input object of class %s could not be built (C08)' % kind)
                continue
        st, r = rec.call(llh2xyz, cfg.unwrap(la), cfg.unwrap(lo), h, cfg.ell_obj(ell))
        co = {'ell': ell, 'lat': lat, 'lon': lon, 'h': h}
        if st != 'ok':
            rec.fail('llh2xyz raised', site='convert:llh2xyz', observed=r, case=one, coords=co)
            continue
        if kind != 'float':
            st2, r2 = rec.call(llh2xyz, la.dec(), lo.dec(), h, cfg.ell_obj(ell))
            if tuple(r2) != tuple(r):
                rec.fail('angle-class input gives a different result from its decimal-degree value',
                         site='convert:llh2xyz:intype', observed=list(r), expected=list(r2), case=one, coords=co)
            latf, lonf = la.dec(), lo.dec()
            # each argument is read on its own: object with float, float with object, two different classes
            others = [k for k in cfg.INTYPES[1:] if k != kind]
            ok2 = others[int(abs(lon) * 7 + abs(lat)) % len(others)]
            mixes = [('obj,float', cfg.unwrap(la), lonf), ('float,obj', latf, cfg.unwrap(lo))]
            try:
                mixes.append(('%s,%s' % (kind, ok2), cfg.unwrap(la), cfg.unwrap(cfg.as_type(lonf, ok2))))
                mixes.append(('%s,%s' % (ok2, kind), cfg.unwrap(cfg.as_type(latf, ok2)), cfg.unwrap(lo)))
            except Exception:
                pass
            for nm, a1, a2 in mixes:
                st3, r3 = rec.call(llh2xyz, a1, a2, h, cfg.ell_obj(ell))
                tol3 = 0.0 if ',' in nm and 'obj' in nm else 1e-6
                if st3 != 'ok' or max(abs(u - v) for u, v in zip(r3, r)) > tol3:
                    rec.fail('mixed argument forms (%s) give a different result from the same angles in one form' % nm,
                             site='convert:llh2xyz:mixed-forms', observed=r3 if st3 != 'ok' else list(r3), expected=list(r),
                             case=one, coords=dict(co, mix=nm))
        else:
            latf, lonf = lat, lon
        rec.nontriv((ell, lat, lon, h, kind))
        rec.state(('xyz', ell) + tuple(float(v).hex() for v in r))
        exp = om.llh2xyz_mp(latf, lonf, h, a, invf)
        err = float(om.dist3(r, exp))
        rec.dev('fwd_m', err, one)
        if err > TOL_FWD or err != err:
            rec.fail('llh2xyz differs from the closed form by more than 1 micrometre', site='convert:llh2xyz:value',
                     observed=list(r), expected=[float(v) for v in exp], tol=TOL_FWD, case=one, coords=dict(co, err=err))
            rec.outcome('fwd-bad')
            continue
        rec.outcome('fwd-ok')
        p = math.hypot(r[0], r[1])
        if p == 0.0:
            rec.skip('on the rotation axis (p == 0)')
            continue
        if kind == 'float':
            back_check(rec, ell, r, one, 'convert:xyz2llh', dict(co, p=p, p_over_z=p / max(abs(r[2]), 1e-300)))
    if kind == 'float' and ell in cfg.SHIPPED and h in (0.0, 1e5) and abs(lat) in (0.0, 30.0, 45.0, 89.0):
        # the same ellipsoid defined with its numbers in other exact forms (int / numpy-integer axis, Decimal / Fraction flattening)
        lon = case['lons'][1]
        stb, base = rec.call(llh2xyz, lat, lon, h, cfg.ell_obj(ell))
        for nm, E in cfg.ell_field_forms(ell) + [('object:' + n, o) for n, o, strict in cfg.ell_object_forms(ell)]:
            if isinstance(E, Exception):
                rec.fail('an ellipsoid cannot be defined with %s' % nm, site='constants:Ellipsoid:field-form', observed=E, case=dict(case, lons=[lon]), coords={'form': nm})
                continue
            st1, r1 = rec.call(llh2xyz, lat, lon, h, E)
            st2, r2 = rec.call(xyz2llh, base[0], base[1], base[2], E) if stb == 'ok' else ('skip', None)
            st0, r0 = rec.call(xyz2llh, base[0], base[1], base[2], cfg.ell_obj(ell)) if stb == 'ok' else ('skip', None)
            ok = st1 == 'ok' and stb == 'ok' and max(abs(float(u) - float(v)) for u, v in zip(r1, base)) <= 1e-6
            ok = ok and (st2 == st0) and (st2 != 'ok' or max(abs(float(u) - float(v)) for u, v in zip(r2, r0)) <= 1e-9)
            if not ok:
                rec.fail('conversions differ when the same ellipsoid is defined with %s' % nm, site='constants:Ellipsoid:field-form',
                         observed=[r1, r2], expected=[base, r0], case=dict(case, lons=[lon]), coords={'form': nm, 'ell': ell})
        rec.outcome('ellipsoid-field-forms')
    rec.sample({'case': dict(case, lons=case['lons'][:2])})


# ----------------------------------------------------------------------------------------------
PS = [1e-3, 1.0, 10.0, 1e3, 1e5, 3e6, 6.4e6, 2e7, 4.6e7]
ZS = [0.0, 1e-3, 1.0, 1e3, 3e6, 6.36e6, 6.4e6, 2e7, 4.6e7]
AZ = [0.0, 45.0, 90.0, 135.0, 180.0, 225.0, 270.0, 315.0, 13.7, 179.99999, 180.00001]


def gen_cart(tier, seed):
    ps = PS + ([] if tier == 'quick' else [0.1, 100.0, 1e4, 1e6, 5e6, 1e7, 3e7])
    # near-axis sweep: the property covers every p > 0
    ps = ps + ([10 ** (k / 4) for k in range(-36, -3)] if tier == 'quick' else [10 ** (k / 8) for k in range(-96, -7)])
    ps = uniq(ps)
    zs = ZS + ([] if tier == 'quick' else [10.0, 1e5, 1e6, 5e6, 1e7, 3e7])
    azs = AZ + fill(7.0, 359.0, 60.0 if tier == 'quick' else 15.0, seed, 13, include_shift=False)
    for ell in cfg.E9 + cfg.TWINS[:2] + cfg.NEAR_SPHERES:
        for p in ps:
            for z in zs:
                for sz in (1, -1):
                    yield {'ell': ell, 'p': p, 'z': sz * z, 'az': azs}
    # points whose components satisfy EXACT relations (p == |z|, x == y, Pythagorean triples, whole metres): a branch on the
    # comparison of two components has its boundary there
    for ell in ('grs80', 'ans', 'sphere'):
        for v in (4.5e6, 4.6e6, 5.0e6, 2.0e7):
            for xyz in ((v, 0.0, v), (v, 0.0, -v), (0.0, -v, v), (-v, 0.0, -v), (0.6 * v, 0.8 * v, v), (-0.8 * v, 0.6 * v, -v), (v, v, v), (v, -v, 0.0),
                        (v, v, math.sqrt(2.0) * v), (0.6 * v, -0.8 * v, 0.0)):
                yield {'ell': ell, 'xyz': list(xyz), 'p': 0.0, 'z': 0.0, 'az': []}
        for xyz in ((3000000, 4000000, 5000000), (-3000000, 4000000, -5000000), (4000000, 3000000, 5000000), (5000000, 0, 5000000)):
            yield {'ell': ell, 'xyz': list(xyz), 'p': 0.0, 'z': 0.0, 'az': []}


def ev_cart(case, rec):
    ell = case['ell']
    a, invf = ELL_AF[ell]
    p, z = case['p'], case['z']
    if 'xyz' in case:
        x, y, z = case['xyz']
        la, lo, h = om.xyz2llh_mp(math.hypot(x, y), 0.0, z, a, invf)
        if not (-1e4 <= float(h) <= 4e7):
            rec.skip('height outside [-1e4, 4e7] m per the oracle')
            return
        rec.nontriv((ell, x, y, z))
        back_check(rec, ell, (x, y, z), case, 'convert:xyz2llh', {'ell': ell, 'p': math.hypot(x, y), 'z': z, 'h': float(h), 'exact_relation': True})
        rec.sample({'case': case})
        return
    # domain: height of the point must lie in [-1e4, 4e7] (classified by the oracle inverse)
    la, lo, h = om.xyz2llh_mp(p, 0.0, z, a, invf)
    if not (-1e4 <= float(h) <= 4e7):
        rec.skip('height outside [-1e4, 4e7] m per the oracle')
        return
    for az in case['az']:
        x, y = p * math.cos(math.radians(az)), p * math.sin(math.radians(az))
        pp = math.hypot(x, y)
        if pp == 0.0:
            continue
        one = dict(case, az=[az])
        rec.nontriv((ell, p, z, az))
        back_check(rec, ell, (x, y, z), one, 'convert:xyz2llh', {'ell': ell, 'p': pp, 'z': z, 'h': float(h),
                                                                 'p_over_z': pp / max(abs(z), 1e-300)})
    rec.sample({'case': dict(case, az=case['az'][:2]), 'oracle_height': float(h)})


# --- two threads converting DIFFERENT points on DIFFERENT ellipsoids at the same time ----------
from gpmc import threads as _thr
import numpy as _tnp
import geodepy.constants as _tgc
import geodepy.convert as _tgv
import geodepy.geodesy as _tgg
import geodepy.angles as _tga
T_CALLS = {
    'llh_grs80': lambda: (lambda: _tgv.llh2xyz(-37.8, 144.97, 39.65)),
    'llh_ans_eq': lambda: (lambda: _tgv.llh2xyz(0.0, 10.0, 1000.0, _tgc.ans)),
    'llh_obj': lambda: (lambda: _tgv.llh2xyz(_tga.HPAngle(-23.4012), _tga.HPAngle(133.5248), 603.2, _tgc.intl24)),
    'xyz_grs80': lambda: (lambda: _tgv.xyz2llh(-4052051.7643, 4212836.2017, -2545106.0245)),
    'xyz_ans_north': lambda: (lambda: _tgv.xyz2llh(2765120.7, -4449250.0, 3626405.6, _tgc.ans)),
    'xyz_high': lambda: (lambda: _tgv.xyz2llh(1.0e7, -2.0e7, 3.0e7, _tgc.intl24)),
}
_tg, _te = _thr.make(T_CALLS, ['geodepy/convert.py'], 'convert:cartesian:threads', quick=['llh_grs80', 'llh_ans_eq', 'xyz_grs80', 'xyz_ans_north'],
                     triple=('llh_ans_eq', 'xyz_grs80', 'xyz_high'), files_thorough=['geodepy/angles.py'])


from gpmc import callforms as _cf


from gpmc import interp as _ip


from gpmc import manyobj as _mo
SUBCHECKS = [
    Sub('geo', gen_geo, ev_geo, chunk=8, floor=1000, envs=6),
    Sub('cart', gen_cart, ev_cart, chunk=8, floor=300, envs=12),
    Sub('threads', _tg, _te, chunk=1, floor=3, poison=False, fresh=True, timeout=7200),
    Sub('many_objects', *_mo.make('C03', 'convert'), chunk=1, floor=2, poison=False, fresh=True, timeout=7200), Sub('callforms', *_cf.make('C03', 'convert'), chunk=1, floor=1, guard=True),
    Sub('interpreter', *_ip.make('C03', 'convert'), chunk=1, floor=5, poison=False),
]


def bounds(tier, seed):
    return {'ellipsoids': cfg.E9, 'lats': len(lats(tier, seed)), 'lons': len(lons(tier, seed)), 'heights': HEIGHTS,
            'cart_p': PS, 'cart_z': ZS, 'depth': 2, 'tol_fwd_m': TOL_FWD, 'tol_back_m': TOL_BACK}
