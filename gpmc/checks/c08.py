"""C08 — all angle notations convert to one another without changing the angle.

Explicit-state search of the conversion graph.  Nodes: the nine notations (rad, dec, hp, gon as floats;
DECAngle, HPAngle, GONAngle, DMSAngle, DDMAngle objects).  Edges: every public x2y function, every object
method, the class constructors, math.degrees/radians and the vectorised hp2dec_v/dec2hp_v.  A state is
(notation, exact bits of the value); its *denotation* is the exact angle in arc-seconds (rational; radians via
40-digit pi).  From every lattice angle injected in every notation the graph is explored breadth-first to
depth 3 (all ordered pairs = depth 1, all length-3 chains = depth 3) and on every reached state:
  * denotation == denotation of the start state within 1e-8" (hence same sign),
  * every HP float produced has minutes and seconds fields < 60 (13-decimal reading),
  * no edge raises on a valid input (in particular every valid 13-decimal HP value is accepted).
'reject' sub-check: HP values with a minutes or seconds field >= 60 are rejected by hp2dec and HPAngle.
"""
import math
from fractions import Fraction as F

import mpmath as mp
import numpy as np

import geodepy.angles as ga
from gpmc.core import Sub

PROPERTY = 'C08'
TOL = F(1, 10 ** 8)
ASSUMPTIONS = [
    'an HP float is read through its 13-decimal string (1e-9" resolution), as the statement defines valid HP; from 512 deg '
    'on a float64 has no 13th decimal (ulp 1.1e-13) and the value is read at 12 decimals',
    'the source angle of a chain is the exact value of the injected state (a float is taken at its binary value)',
    'float pre-filter (|diff| <= 4e-9") decides the clear cases; everything else is decided in exact rationals / 40-digit pi',
    'quick: complete arc-second lattice of 18 structural degrees at depth 1, sub-lattice at depth 3; thorough: complete '
    'lattice 0..359 deg 59\' 59" both signs at depth 1 and the 18-degree lattice at depth 3',
]
PI40 = None


def _pi():
    global PI40
    if PI40 is None:
        with mp.workdps(50):
            PI40 = F(int(mp.floor(mp.pi * 10 ** 45)), 10 ** 45)
    return PI40


# ----------------------------------------------------------------------------------------------
# states
# ----------------------------------------------------------------------------------------------
def key(state):
    n, v = state
    if n in ('rad', 'dec', 'hp', 'gon'):
        # the Python type is part of the state: a numpy scalar is a different input form of the same number
        return (n, float(v).hex()) if type(v) is float else (n, type(v).__name__, float(v).hex())
    if n == 'deca':
        return (n, float(v.dec_angle).hex())
    if n == 'hpa':
        return (n, float(v.hp_angle).hex())
    if n == 'gona':
        return (n, float(v.gon_angle).hex())
    if n == 'dms':
        return (n, bool(v.positive), int(v.degree), int(v.minute), float(v.second).hex())
    if n == 'ddm':
        return (n, bool(v.positive), int(v.degree), float(v.minute).hex())
    raise ValueError(n)


def hp_places(x):
    """decimals at which an HP float can be read: 13 (1e-9") below 512 deg, 12 from 512 deg on, where one
    ulp of a float64 is 1.1e-13 and a 13th decimal does not exist"""
    return 13 if abs(x) < 512 else 12


def hp_parse(x):
    nd = hp_places(x)
    s = '%.*f' % (nd, abs(x))
    ip, fp = s.split('.')
    mn = int(fp[:2])
    sec = F(int(fp[2:]), 10 ** (nd - 4))
    return int(ip), mn, sec


def den_exact(state):
    """exact denotation in arc-seconds (Fraction); second value: HP validity (None if not HP)"""
    n, v = state
    if n == 'rad':
        return F(float(v)) * 648000 / _pi(), None
    if n == 'dec':
        return F(float(v)) * 3600, None
    if n == 'gon':
        return F(float(v)) * 3240, None
    if n == 'deca':
        return F(float(v.dec_angle)) * 3600, None
    if n == 'gona':
        return F(float(v.gon_angle)) * 3240, None
    if n in ('hp', 'hpa'):
        x = float(v) if n == 'hp' else float(v.hp_angle)
        d, m, s = hp_parse(x)
        val = d * 3600 + m * 60 + s
        return (val if x >= 0 else -val), (m < 60 and s < 60)
    if n == 'dms':
        val = int(v.degree) * 3600 + int(v.minute) * 60 + F(float(v.second))
        return (val if v.positive else -val), None
    if n == 'ddm':
        val = int(v.degree) * 3600 + F(float(v.minute)) * 60
        return (val if v.positive else -val), None
    raise ValueError(n)


def den_float(state):
    n, v = state
    if n == 'rad':
        return float(v) * 206264.80624709636
    if n == 'dec':
        return float(v) * 3600.0
    if n == 'gon':
        return float(v) * 3240.0
    if n == 'deca':
        return v.dec_angle * 3600.0
    if n == 'gona':
        return v.gon_angle * 3240.0
    if n == 'dms':
        val = v.degree * 3600.0 + v.minute * 60.0 + v.second
        return val if v.positive else -val
    if n == 'ddm':
        val = v.degree * 3600.0 + v.minute * 60.0
        return val if v.positive else -val
    return None     # HP always goes through the exact reader


# ----------------------------------------------------------------------------------------------
# edges
# ----------------------------------------------------------------------------------------------
def _v1(fn):
    return lambda x: float(fn(np.array([x], dtype=float))[0])


EDGES = {
    'rad': [('math.degrees', 'dec', math.degrees)],
    'dec': [('math.radians', 'rad', math.radians), ('dec2hp', 'hp', ga.dec2hp), ('dec2hpa', 'hpa', ga.dec2hpa),
            ('dec2gon', 'gon', ga.dec2gon), ('dec2gona', 'gona', ga.dec2gona), ('dec2dms', 'dms', ga.dec2dms),
            ('dec2ddm', 'ddm', ga.dec2ddm), ('DECAngle', 'deca', ga.DECAngle), ('dec2hp_v', 'hp', _v1(ga.dec2hp_v)),
            ('dd2sec', 'sec', ga.dd2sec)],
    'hp': [('hp2dec', 'dec', ga.hp2dec), ('hp2deca', 'deca', ga.hp2deca), ('hp2rad', 'rad', ga.hp2rad),
           ('hp2gon', 'gon', ga.hp2gon), ('hp2gona', 'gona', ga.hp2gona), ('hp2dms', 'dms', ga.hp2dms),
           ('hp2ddm', 'ddm', ga.hp2ddm), ('HPAngle', 'hpa', ga.HPAngle), ('hp2dec_v', 'dec', _v1(ga.hp2dec_v))],
    'gon': [('gon2dec', 'dec', ga.gon2dec), ('gon2deca', 'deca', ga.gon2deca), ('gon2hp', 'hp', ga.gon2hp),
            ('gon2hpa', 'hpa', ga.gon2hpa), ('gon2rad', 'rad', ga.gon2rad), ('gon2dms', 'dms', ga.gon2dms),
            ('gon2ddm', 'ddm', ga.gon2ddm), ('GONAngle', 'gona', ga.GONAngle)],
}
METHODS = {
    'deca': ['rad', 'dec', 'hp', 'hpa', 'gon', 'gona', 'dms', 'ddm'],
    'hpa': ['rad', 'dec', 'deca', 'hp', 'gon', 'gona', 'dms', 'ddm'],
    'gona': ['rad', 'dec', 'deca', 'hp', 'hpa', 'gon', 'dms', 'ddm'],
    'dms': ['rad', 'dec', 'deca', 'hp', 'hpa', 'gon', 'gona', 'ddm'],
    'ddm': ['rad', 'dec', 'deca', 'hp', 'hpa', 'gon', 'gona', 'dms'],
}
for _n, _ms in METHODS.items():
    EDGES[_n] = [('%s.%s' % (_n, m), m, (lambda o, m=m: getattr(o, m)())) for m in _ms]
# a DECAngle IS a float (subclass): the decimal-degree functions that take the object as their number on the pinned tree
# (dec2dms(hp2deca(x)) and the like; dec2hp / dec2gon do not - they compare or multiply the object itself - and are not claimed)
EDGES['deca'] = EDGES['deca'] + [('%s(DECAngle)' % nm, tg, fn) for nm, tg, fn in EDGES['dec'] if nm in ('dec2dms', 'dec2ddm', 'dd2sec', 'math.radians')]


# The tables above are what the library offered when the check was written.  Conversions ADDED since (any function of
# geodepy.angles named <notation>2<notation>, any angle-class method named after a notation) are discovered by name and explored
# and judged like the others: a notation is a notation whichever function produced it.
DISCOVERED = []


def _discover():
    import inspect
    import re
    known = {name for edges in EDGES.values() for name, _, _ in edges}
    for n, f in sorted(vars(ga).items()):
        m = re.match(r'^(rad|dec|hp|gon)2(rad|dec|hp|gon|deca|hpa|gona|dms|ddm)$', n)
        if m and inspect.isfunction(f) and n not in known:
            EDGES[m.group(1)].append((n, m.group(2), f))
            DISCOVERED.append(n)
    for key, cls in (('deca', ga.DECAngle), ('hpa', ga.HPAngle), ('gona', ga.GONAngle), ('dms', ga.DMSAngle), ('ddm', ga.DDMAngle)):
        for mname in ('rad', 'dec', 'deca', 'hp', 'hpa', 'gon', 'gona', 'dms', 'ddm'):
            if mname not in METHODS[key] and mname != key and callable(getattr(cls, mname, None)):
                EDGES[key].append(('%s.%s' % (key, mname), mname, (lambda o, m=mname: getattr(o, m)())))
                DISCOVERED.append('%s.%s' % (key, mname))


_discover()
N_EDGES = sum(len(v) for v in EDGES.values())


# ----------------------------------------------------------------------------------------------
# lattice -> initial states
# ----------------------------------------------------------------------------------------------
STRUCT_DEG = [0, 1, 2, 4, 8, 16, 32, 59, 60, 89, 90, 127, 128, 179, 180, 255, 256, 359]
FRAC = [F(0), F(1, 10 ** 9), F(1, 10 ** 8), F(1, 2), F(99999999, 10 ** 8), F(999999999, 10 ** 9)]


def hp_float(d, m, s):
    """HP float of d deg m min s sec (s Fraction with <= 9 decimals), through its decimal string"""
    nd = 9 if d < 512 else 8          # decimals of the seconds field that a float64 HP value can hold
    if 10 ** nd % s.denominator != 0:
        return None
    sn = s.numerator * (10 ** nd // s.denominator)
    return float('%d.%02d%0*d' % (d, m, nd + 2, sn))


VARIANTS = ['assigned', 'string', 'strobj', 'reassigned', 'result']


def form_of(raw):
    if isinstance(raw, tuple) and isinstance(raw[-1], str) and raw[-1] in VARIANTS:
        return raw[-1]
    return type(raw).__name__


def inject(sign, d, m, s, numpy_forms=False, obj_forms=False):
    """the lattice angle sign*(d deg m' s") in each of the nine notations"""
    arc = F(d * 3600 + m * 60) + F(s)
    dec = float(arc / 3600)
    out = []
    sg = 1.0 if sign > 0 else -1.0
    out.append(('dec', sg * dec))
    out.append(('rad', sg * float(arc * _pi() / 648000)))
    out.append(('gon', sg * float(arc / 3240)))
    hp = hp_float(d, m, F(s))
    if hp is not None:
        out.append(('hp', sg * hp))
    out.append(('dms', ('dms', sign > 0, d, m, float(s))))
    out.append(('ddm', ('ddm', sign > 0, d, float(m + F(s) / 60))))
    out.append(('deca', sg * dec))
    if hp is not None:
        out.append(('hpa', sg * hp))
    out.append(('gona', sg * float(arc / 3240)))
    if numpy_forms:
        # the same numbers as numpy scalars (array elements, results of numpy arithmetic) and, where exact, as ints
        for n, v in list(out[:4]):
            if isinstance(v, float):
                out.append((n, np.float64(v)))
        if s == 0 and m == 0:
            out.append(('dec', sign * d))
            out.append(('gon', np.int64(sign * d)))
            # whole degrees / gradians / HP degrees in every exact numeric spelling (numpy integers of every width incl. unsigned)
            from gpmc import cfg as _cfg
            for nm, x in _cfg.exact_forms(float(sign * d)):
                if nm not in ('np64', 'np0d', 'npi64', 'int'):
                    out.append(('dec', x))
                    out.append(('hp', x))
                    out.append(('gon', x))
    if obj_forms:
        # the same DMS / DDM angle reached by other legal constructions: public fields assigned after construction, the
        # documented formatted string, the object rebuilt from its own text form, fields re-assigned after the object was used
        out = []
        for v in VARIANTS:
            out.append(('dms', ('dms', sign > 0, d, m, float(s), v)))
            out.append(('ddm', ('ddm', sign > 0, d, float(m + F(s) / 60), v)))
    return out


def build(notation, raw, rec=None, case=None):
    """raw -> state; constructing an object is itself a transition of the implementation"""
    if notation in ('dec', 'rad', 'gon', 'hp'):
        return (notation, raw)
    if notation in ('dms', 'ddm') and form_of(raw) in VARIANTS:
        var, pos = raw[-1], raw[1]
        cls = ga.DMSAngle if notation == 'dms' else ga.DDMAngle
        fields = list(raw[2:-1])
        names = ['degree', 'minute', 'second'][:len(fields)]
        if var in ('assigned', 'reassigned', 'result'):
            if var == 'result':
                # an object returned by the library itself (conversion of another angle), then edited by the caller
                o = (ga.dec2dms if notation == 'dms' else ga.dec2ddm)(-12.58244138888889 if pos else 12.58244138888889)
            else:
                o = cls(*([12, 34, 56.789] if notation == 'dms' else [12, 34.56789]), positive=not pos)
            if var == 'reassigned':
                # the object has been used before its fields change
                o.dec(), o.hp(), o.rad(), str(o), o == o, hash(repr(o))
            for nm, x in zip(names, fields):
                setattr(o, nm, x)
            o.positive = pos
            return (notation, o)
        if var == 'string':
            return (notation, cls(('' if pos else '-') + ' '.join(repr(x) for x in fields)))
        return (notation, cls(str(cls(*fields, positive=pos))))
    if notation == 'dms':
        _, pos, d, m, s = raw
        return ('dms', ga.DMSAngle(d, m, s, positive=pos))
    if notation == 'ddm':
        _, pos, d, mm = raw
        return ('ddm', ga.DDMAngle(d, mm, positive=pos))
    if notation == 'deca':
        return ('deca', ga.DECAngle(raw))
    if notation == 'gona':
        return ('gona', ga.GONAngle(raw))
    if notation == 'hpa':
        return ('hpa', ga.HPAngle(raw))
    raise ValueError(notation)


def explore(rec, start_desc, depth):
    """BFS from one injected state; start_desc = [notation, raw]"""
    notation, raw = start_desc
    try:
        s0 = build(notation, raw)
        rec.transition()
    except Exception as e:
        rec.fail('valid input rejected when constructing %s' % notation, site='angles:construct:%s' % notation, observed=e,
                 coords={'notation': notation})
        rec.outcome('construct-raise')
        return
    src_exact, valid = den_exact(s0)
    src_float = float(src_exact)
    seen = {key(s0)}
    rec.state(key(s0))
    frontier = [(s0, 0, [])]
    while frontier:
        st, d, path = frontier.pop(0)
        if d >= depth:
            continue
        for name, target, fn in EDGES[st[0]]:
            rec.transitions += 1
            try:
                v = fn(st[1])
            except Exception as e:
                rec.fail('conversion raised on a valid input', site='angles:' + name, observed=e,
                         coords={'edge': name, 'path': path + [name], 'start': notation})
                rec.outcome('raise:' + name)
                continue
            if target == 'sec':
                df = abs(float(v) - src_float)
                if df > 4e-9 and abs(F(float(v)) - src_exact) > TOL:
                    rec.fail('dd2sec does not return the angle in seconds', site='angles:dd2sec', observed=v,
                             expected=float(src_exact), tol=1e-8, coords={'path': path + [name], 'start': notation})
                continue
            ns = (target, v)
            # denotation
            fl = den_float(ns)
            ok = fl is not None and abs(fl - src_float) <= 4e-9
            hpvalid = None
            if not ok:
                ex, hpvalid = den_exact(ns)
                ok = abs(ex - src_exact) <= TOL
                if not ok:
                    rec.fail('conversion changes the angle by more than 1e-8 arc-seconds', site='angles:' + name,
                             observed=repr(v), expected='%.12f"' % float(src_exact), tol=1e-8,
                             coords={'edge': name, 'path': path + [name], 'start': notation,
                                     'err_arcsec': float(ex - src_exact)})
                    rec.outcome('bad:' + name)
            if target in ('hp', 'hpa') and hpvalid is None:
                hpvalid = den_exact(ns)[1]
            if hpvalid is False:
                rec.fail('conversion produced an invalid HP value (minutes or seconds field >= 60)', site='angles:' + name + ':hpvalid',
                         observed=repr(v), coords={'edge': name, 'path': path + [name], 'start': notation})
                rec.outcome('invalid-hp:' + name)
            k = key(ns)
            if k not in seen:
                seen.add(k)
                rec.states.add(hash(k) & 0xFFFFFFFFFFFFFFFF)
                if ok and hpvalid is not False:      # a state that is already wrong / invalid HP is not expanded
                    frontier.append((ns, d + 1, path + [name]))
    rec.outcome('explored')


# ----------------------------------------------------------------------------------------------
# case generation: a case = [sign, degree, minute, depth, [seconds...]] or an explicit special list
# ----------------------------------------------------------------------------------------------
def gen(tier, seed):
    full_deg = range(360) if tier == 'thorough' else STRUCT_DEG
    # (1) complete whole-arc-second lattice, depth 1
    for d in full_deg:
        for m in range(60):
            yield {'deg': d, 'min': m, 'secs': 'all', 'depth': 1}
    # (2) depth-3 chains on the structural degrees
    sec3 = list(range(60)) if tier == 'thorough' else [0, 1, 29, 30, 59]
    shift = (seed * 7) % 60
    for d in STRUCT_DEG:
        for m in range(60):
            yield {'deg': d, 'min': m, 'secs': sorted(set(sec3 + [(shift + m) % 60])), 'depth': 3}
    # (3) fractional seconds / boundary neighbours / degrees 360..719, depth 3 on a structural set
    for d in STRUCT_DEG + [360, 361, 419, 420, 511, 512, 539, 540, 719]:
        for m in (0, 1, 29, 30, 59):
            yield {'deg': d, 'min': m, 'secs': 'frac', 'depth': 3 if tier == 'thorough' or d in (0, 1, 59, 60, 359, 360, 719) else 2}
    # (4) the 512-degree precision threshold of HP floats: every whole minute of a few degrees above it, both signs
    for d in (511, 512, 513, 600, 700, 719):
        for m in range(60):
            yield {'deg': d, 'min': m, 'secs': [0, 59], 'depth': 1}
    # (5) numpy-scalar / int forms of the same numbers (depth 2 from the injected form)
    for d in (0, 1, 10, 19, 59, 127, 128, 200, 359):
        for m in (0, 30, 59):
            yield {'deg': d, 'min': m, 'secs': [0, 30], 'depth': 2, 'numpy': True}
    # (5b) DMS objects whose seconds are within a few ulps of 60 (with minutes 59 and otherwise), injected as DMS / DDM objects
    for d in (0, 10, 59, 179, 359):
        for m in (0, 58, 59):
            yield {'deg': d, 'min': m, 'secs': 'near60', 'depth': 3, 'only': ['dms', 'ddm']}
    # (6) DMS / DDM objects reached by other constructions (fields assigned, formatted strings incl. exponent notation)
    for d in (0, 1, 59, 144, 359, 719):
        for m in (0, 30, 59):
            yield {'deg': d, 'min': m, 'secs': 'tiny', 'depth': 2, 'objforms': True}


def seconds_of(case):
    if case['secs'] == 'all':
        return [F(s) for s in range(60)]
    if case['secs'] == 'frac':
        out = []
        for s in (0, 1, 30, 59):
            for f in FRAC:
                out.append(F(s) + f)
        return out
    if case['secs'] == 'near60':
        # seconds a few units in the last place below 60 (and minutes 59): minute + second / 60 rounds to exactly 60.0
        out, x = [], 60.0
        for k in range(1, 70):
            x = math.nextafter(x, 0.0)
            if k in (1, 2, 8, 16, 30, 31, 32, 33, 64, 69):
                out.append(F(x))
        return out + [F(60) - F(1, 10 ** 12), F(60) - F(1, 10 ** 9)]
    if case['secs'] == 'tiny':
        return [F(0), F(30), F(59), F(36, 10 ** 9), F(1, 10 ** 5), F(30) + F(1, 10 ** 7), F(599999, 10 ** 4)]
    return [F(s) for s in case['secs']]


def ev(case, rec):
    d, m, depth = case['deg'], case['min'], case['depth']
    for s in seconds_of(case):
        for sign in (1, -1):
            if sign < 0 and d == 0 and m == 0 and s == 0:
                continue
            for notation, raw in inject(sign, d, m, s, bool(case.get('numpy')), bool(case.get('objforms'))):
                if case.get('only') and notation not in case['only']:
                    continue
                rec._case = {'deg': d, 'min': m, 'sec': float(s), 'sign': sign, 'notation': notation, 'depth': depth,
                             'secs': [float(s)], 'numpy': bool(case.get('numpy')), 'objforms': bool(case.get('objforms')),
                             'form': form_of(raw)}
                if case.get('_env'):
                    rec._case['_env'] = case['_env']
                rec.nontriv((sign, d, m, float(s), notation, depth, form_of(raw)))
                explore(rec, [notation, raw], depth)
    rec._case = case
    rec.sample({'case': case, 'edges_total': N_EDGES})


def ev_single(case, rec):
    """replay form produced by rec.fail inside ev: a single injected state"""
    if 'notation' in case:
        s = F(repr(case['sec'])) if not float(case['sec']).is_integer() else F(int(case['sec']))
        for notation, raw in inject(case['sign'], case['deg'], case['min'], s, bool(case.get('numpy')), bool(case.get('objforms'))):
            if notation == case['notation'] and form_of(raw) == case.get('form', form_of(raw)):
                explore(rec, [notation, raw], case['depth'])
        return
    ev(case, rec)


# --- the vectorised conversions on arrays of every shape ----------------------------------------------------------
VEC_DEC = [2.0166666666666666, -0.5, 123.74875, -33.99999999999, 0.0, 359.9997222222222, -179.5, 45.25, -0.0002777777777777778, 90.0, -144.5, 10.0]
VEC_HP = [2.01, -0.3, 123.44555, -33.5959999999, 0.0, 359.5959, -179.3, 45.15, -0.0001, 90.0, -144.3, 10.0]


def gen_vec(tier, seed):
    for fn in ('dec2hp_v', 'hp2dec_v'):
        for shape in ('(12,)', '(6,2)', '(2,6)', '(3,2,2)', '(1,12)', '(12,1)', 'strided', 'readonly', 'fortran', '(1,)', 'empty'):
            yield {'fn': fn, 'shape': shape}


def ev_vec(case, rec):
    fn = getattr(ga, case['fn'])
    scalar = ga.dec2hp if case['fn'] == 'dec2hp_v' else ga.hp2dec
    base = np.array(VEC_DEC if case['fn'] == 'dec2hp_v' else VEC_HP, dtype=float)
    sh = case['shape']
    if sh.startswith('('):
        shp = eval(sh)
        n = int(np.prod(shp))
        arr = base[:n].reshape(shp).copy()
    elif sh == 'strided':
        big = np.zeros(24)
        big[::2] = base
        arr = big[::2]
    elif sh == 'readonly':
        arr = base.copy()
        arr.setflags(write=False)
    elif sh == 'fortran':
        arr = np.asfortranarray(base.reshape(6, 2))
    else:
        arr = np.array([], dtype=float)
    before = arr.copy()
    st, out = rec.call(fn, arr)
    rec.nontriv((case['fn'], sh))
    if st != 'ok':
        rec.fail('%s raised on a float array of shape %s' % (case['fn'], sh), site='angles:%s:shape' % case['fn'], observed=out, case=case)
        return
    if not np.array_equal(arr, before):
        rec.fail('%s modified the array supplied by the caller' % case['fn'], site='angles:%s:argument' % case['fn'], observed=arr, case=case)
    out = np.asarray(out)
    rec.state((case['fn'], sh, out.tobytes().hex()[:48]))
    if out.shape != before.shape:
        rec.fail('%s changes the shape of the array' % case['fn'], site='angles:%s:shape' % case['fn'], observed=list(out.shape), expected=list(before.shape), case=case)
        return
    bad = []
    for idx in np.ndindex(*before.shape):
        exp = scalar(float(before[idx]))
        got = float(out[idx])
        # both are HP (or decimal) floats of the same angle: compare through their denotation in arc-seconds
        if case['fn'] == 'dec2hp_v':
            d1, d2 = den_exact(('hp', got))[0], den_exact(('hp', float(exp)))[0]
        else:
            d1, d2 = F(got) * 3600, F(float(exp)) * 3600
        if abs(d1 - d2) > TOL:
            bad.append((list(idx), float(before[idx]), got, float(exp)))
    if bad:
        rec.fail('%s on an array of shape %s does not convert every element like the scalar function (sign / value)' % (case['fn'], sh),
                 site='angles:%s:elementwise' % case['fn'], observed=bad[:4], case=case, coords={'shape': sh, 'wrong': len(bad)})
        rec.outcome('vec-bad')
    else:
        rec.outcome('vec-ok')
    rec.sample(case)


# --- invalid HP must be rejected --------------------------------------------------------------
def gen_reject(tier, seed):
    for d in (0, 1, 59, 123, 359):
        yield {'deg': d}


def ev_reject(case, rec):
    d = case['deg']
    for m in list(range(60, 100)) + [0, 30, 59]:
        for s in ([0, 30, 59] if m >= 60 else list(range(60, 100))):
            for frac in ('', '5', '999999999'):
                for sg in (1.0, -1.0):
                    x = sg * float('%d.%02d%02d%s' % (d, m, s, frac))
                    txt = ('-' if sg < 0 else '') + '%d.%02d%02d%s' % (d, m, s, frac)
                    for name, fn, arg in (('hp2dec', ga.hp2dec, x), ('HPAngle', ga.HPAngle, x), ('hp2dec', ga.hp2dec, txt), ('HPAngle', ga.HPAngle, txt),
                                          ('hp2dec', ga.hp2dec, np.float64(x))):
                        x = arg
                        rec.transitions += 1
                        rec.nontriv((d, m, s, frac, sg, name))
                        try:
                            v = fn(x)
                        except ValueError:
                            rec.outcome('rejected')
                            continue
                        except Exception as e:
                            rec.fail('invalid HP rejected with an unexpected exception type', site='angles:%s:reject' % name,
                                     observed=e, case={'deg': d, 'hp': x})
                            continue
                        rec.fail('HP value with a minutes or seconds field >= 60 was accepted', site='angles:%s:reject' % name,
                                 observed=repr(v), case={'deg': d, 'hp': x}, coords={'hp': x})
                        rec.outcome('accepted-invalid')
                    if frac != '999999999' and (m in (60, 75, 99, 0, 59) and s in (0, 59, 60, 75, 99)):
                        reject_objects(rec, d, sg * float('%d.%02d%02d%s' % (d, m, s, frac)))
    rec.sample(case)


OBJ_USES = [('dec()', lambda o: o.dec()), ('deca()', lambda o: o.deca()), ('rad()', lambda o: o.rad()), ('gon()', lambda o: o.gon()),
            ('gona()', lambda o: o.gona()), ('o + HPAngle', lambda o: o + ga.HPAngle(1.0)), ('HPAngle + o', lambda o: ga.HPAngle(1.0) + o),
            ('o - HPAngle', lambda o: o - ga.HPAngle(1.0)), ('o * 2', lambda o: o * 2), ('o / 2', lambda o: o / 2), ('o == HPAngle', lambda o: o == ga.HPAngle(1.0)),
            ('o < HPAngle', lambda o: o < ga.HPAngle(1.0)), ('-o', lambda o: -o), ('abs(o)', lambda o: abs(o))]


def reject_objects(rec, d, x):
    """HP angle OBJECTS that came to hold the invalid value without passing the constructor (public field assigned, augmented,
    pickle / copy of such an object): every HP-to-decimal conversion of the object (dec / deca / rad / gon / gona, the arithmetic
    and comparison operators, which compute in decimal degrees) rejects it with an error"""
    import copy
    import pickle
    o1 = ga.HPAngle(12.3045)
    o1.hp_angle = x
    o2 = ga.HPAngle(0.0)
    o2.hp_angle += x
    o3 = pickle.loads(pickle.dumps(o1))
    o4 = copy.deepcopy(o1)
    for how, o in (('assigned', o1), ('augmented', o2), ('unpickled', o3), ('deep-copied', o4)):
        for use, f in OBJ_USES:
            rec.transitions += 1
            rec.nontriv(('obj', x, how, use))
            try:
                v = f(o)
            except ValueError:
                rec.outcome('rejected-object')
                continue
            except Exception as e:
                rec.fail('invalid HP in an HP object rejected with an unexpected exception type', site='angles:HPAngle:%s:reject' % use,
                         observed=e, case={'deg': d, 'hp': x}, coords={'how': how})
                continue
            rec.fail('an HP angle object holding a value with a minutes or seconds field >= 60 (%s) converts it instead of rejecting it: %s' % (how, use),
                     site='angles:HPAngle:object-reject', observed=repr(v), case={'deg': d, 'hp': x}, coords={'hp': x, 'how': how, 'use': use})
            rec.outcome('accepted-invalid-object')


def ev_reject_single(case, rec):
    if 'hp' in case:
        for name, fn in (('hp2dec', ga.hp2dec), ('HPAngle', ga.HPAngle)):
            try:
                v = fn(case['hp'])
            except ValueError:
                continue
            rec.fail('HP value with a minutes or seconds field >= 60 was accepted', site='angles:%s:reject' % name,
                     observed=repr(v), case=case)
        return
    ev_reject(case, rec)


# --- two threads converting DIFFERENT angles at the same time ----------
from gpmc import threads as _thr
import numpy as _tnp
import geodepy.constants as _tgc
import geodepy.convert as _tgv
import geodepy.geodesy as _tgg
import geodepy.angles as _tga
def _tk(v):
    return repr(v)


T_CALLS = {
    'dec2hp': lambda: (lambda: _tga.dec2hp(-33.99999999999)),
    'dec2hp_b': lambda: (lambda: _tga.dec2hp(121.99999999)),
    'hp2dec': lambda: (lambda: _tga.hp2dec(121.5959999)),
    'hp2dms': lambda: (lambda: _tk(_tga.hp2dms(-0.3015))),
    'dec2dms': lambda: (lambda: _tk(_tga.dec2dms(144.00000000001))),
    'dms_str': lambda: (lambda: _tk(_tga.DMSAngle('-37 57 3.7203').hp())),
    'vec': lambda: (lambda: _tga.hp2dec_v(_tnp.array([2.01, -0.3, 123.44555]))),
    'vec_b': lambda: (lambda: _tga.dec2hp_v(_tnp.array([2.0166666666666666, -0.5, 123.74875]))),
    'obj_chain': lambda: (lambda: _tk(_tga.DDMAngle(-0, 30.25).dms().hpa().gona().deca())),
}
_tg, _te = _thr.make(T_CALLS, ['geodepy/angles.py'], 'angles:threads', quick=['dec2hp', 'dec2hp_b', 'hp2dec', 'hp2dms', 'vec', 'vec_b'],
                     triple=('dec2hp', 'hp2dms', 'vec'))


from gpmc import callforms as _cf


from gpmc import interp as _ip


SUBCHECKS = [
    Sub('graph', gen, ev_single, chunk=6, floor=1000, envs=4),
    Sub('reject', gen_reject, ev_reject_single, chunk=1, floor=100, envs=2),
    Sub('vectors', gen_vec, ev_vec, chunk=1, floor=20),
    Sub('threads', _tg, _te, chunk=1, floor=3, poison=False, fresh=True, timeout=7200),
    Sub('callforms', *_cf.make('C08', 'angles'), chunk=1, floor=1, guard=True),
    Sub('interpreter', *_ip.make('C08', 'angles'), chunk=1, floor=5, poison=False),
]


def bounds(tier, seed):
    return {'notations': 9, 'edges': N_EDGES, 'depth': 3, 'structural_degrees': STRUCT_DEG,
            'complete_second_lattice_degrees': 360 if tier == 'thorough' else len(STRUCT_DEG), 'tolerance_arcsec': 1e-8}
