"""C20 — the HTTP API returns exactly what the library computes.

Flask test client; /vincdir, /vincinv and / x (from_angle_type, to_angle_type) in {dd, dms, absent}^2 x a query lattice
(negative / western values, HP-valid and decimal inputs, cardinal azimuths, coincident points, poles, antimeridian).
Oracle: the library functions with hp2dec / dec2hp applied per the angle types; JSON numbers compared bit for bit after
the JSON round trip.  The index route must list every rule of the URL map.
"""
import itertools
import json

from geodepy.geodesy import vincdir, vincinv
from geodepy.angles import hp2dec, dec2hp
from gpmc.core import Sub, HarnessError

PROPERTY = 'C20'
ASSUMPTIONS = [
    'hp2dec / dec2hp of the library are the reference for the DMS angle type (they are themselves decided by C08)',
    'JSON numbers are compared after json.loads: float(x).hex() equality, integers compared by value',
]
TYPES = ['dd', 'dms', None]
_APP = {}


def client():
    if 'c' not in _APP:
        from api.app import app
        _APP['app'] = app
        _APP['c'] = app.test_client()
    return _APP['c']


# values given as text exactly as they appear in the query string
DD = {'lat': ['-37.95103342', '0.0', '45.5', '-89.0', '90', '-0.005'],
      'lon': ['144.42486789', '-179.999999', '0', '10.25', '180'],
      'az': ['0', '306.8681592', '180.0', '359.999999', '90', '0.25'],
      'dist': ['0', '54972.271', '1e7', '0.001']}
HP = {'lat': ['-37.57037203', '0.0', '45.3', '-89.0', '90', '-0.0018'],
      'lon': ['144.25295244', '-179.59599964', '0', '10.15', '180'],
      'az': ['0', '306.520537', '180.0', '359.59599964', '90', '0.15'],
      'dist': DD['dist']}


def gen_dir(tier, seed):
    # every case carries ALL three from_angle_type values for the same numbers: HP-valid text is sent as dd, as dms and
    # without a type within one process (a cache keyed on the raw numbers would answer one with the other's solution)
    for la in HP['lat']:
        yield {'route': 'vincdir', 'froms': TYPES, 'lat1': la, 'lons': HP['lon'], 'azs': HP['az'], 'dists': HP['dist']}
    for la in DD['lat']:
        yield {'route': 'vincdir', 'froms': ['dd', None], 'lat1': la, 'lons': DD['lon'], 'azs': DD['az'], 'dists': DD['dist']}


def gen_inv(tier, seed):
    for src, froms in ((HP, TYPES), (DD, ['dd', None])):
        pts = list(itertools.product(src['lat'], src['lon']))
        for p in pts:
            yield {'route': 'vincinv', 'froms': froms, 'p1': list(p), 'p2s': [list(q) for q in pts]}


def numeq(a, b):
    if isinstance(a, float) and isinstance(b, float):
        return a.hex() == b.hex()
    return a == b and isinstance(a, (int, float)) and isinstance(b, (int, float))


def request(rec, route, q, expected_fn, one):
    st, resp = rec.call(client().get, '/' + route, query_string=q)
    if st != 'ok':
        rec.fail('request raised inside the application', site='api:%s:raise' % route, observed=resp, case=one)
        return
    try:
        exp = expected_fn()
    except Exception as e:
        # the library itself rejects the arguments: nothing to compare (not the API's business)
        rec.skip('library raises for these arguments: %s' % type(e).__name__)
        return
    rec.nontriv(json.dumps(q, sort_keys=True))
    if resp.status_code != 200:
        rec.fail('status is not 200 for a query the library answers', site='api:%s:status' % route, observed=resp.status_code,
                 expected=200, case=one, coords=q)
        rec.outcome('status-%d' % resp.status_code)
        return
    try:
        body = json.loads(resp.data)
    except Exception as e:
        rec.fail('response is not JSON', site='api:%s:json' % route, observed=resp.data[:200].decode('latin1'), case=one)
        return
    rec.state(json.dumps(body, sort_keys=True))
    if set(body) != set(exp) or not all(numeq(body[k], json.loads(json.dumps(exp[k]))) for k in exp):
        rec.fail('JSON body differs from what the library returns for the same arguments', site='api:%s:value' % route,
                 observed=body, expected=exp, case=one, coords=q)
        rec.outcome('value-bad')
    else:
        rec.outcome('ok')


def ev_dir(case, rec):
    for lo in case['lons']:
        for az in case['azs']:
            for d in case['dists']:
                for ft, tt in itertools.product(case.get('froms', [case.get('from')]), TYPES):
                    to_dd = hp2dec if ft == 'dms' else (lambda x: x)
                    q = {'lat1': case['lat1'], 'lon1': lo, 'azimuth1to2': az, 'ell_dist': d}
                    if ft is not None:
                        q['from_angle_type'] = ft
                    if tt is not None:
                        q['to_angle_type'] = tt
                    one = dict(case, lons=[lo], azs=[az], dists=[d], to=tt, froms=[ft])
                    out = dec2hp if tt == 'dms' else (lambda x: x)

                    def expected(to_dd=to_dd, out=out):
                        r = vincdir(to_dd(float(case['lat1'])), to_dd(float(lo)), to_dd(float(az)), float(d))
                        return {'lat2': out(r[0]), 'lon2': out(r[1]), 'azimuth2to1': out(r[2])}
                    request(rec, 'vincdir', q, expected, one)
    rec.sample(dict(case, lons=case['lons'][:2], azs=case['azs'][:2], dists=case['dists'][:2]))


def ev_inv(case, rec):
    p1 = case['p1']
    for p2 in case['p2s']:
        for ft, tt in itertools.product(case.get('froms', [case.get('from')]), TYPES):
            to_dd = hp2dec if ft == 'dms' else (lambda x: x)
            q = {'lat1': p1[0], 'lon1': p1[1], 'lat2': p2[0], 'lon2': p2[1]}
            if ft is not None:
                q['from_angle_type'] = ft
            if tt is not None:
                q['to_angle_type'] = tt
            one = dict(case, p2s=[p2], to=tt, froms=[ft])
            out = dec2hp if tt == 'dms' else (lambda x: x)

            def expected(to_dd=to_dd, out=out):
                r = vincinv(to_dd(float(p1[0])), to_dd(float(p1[1])), to_dd(float(p2[0])), to_dd(float(p2[1])))
                return {'ell_dist': r[0], 'azimuth1to2': out(r[1]), 'azimuth2to1': out(r[2])}
            request(rec, 'vincinv', q, expected, one)
    rec.sample(dict(case, p2s=case['p2s'][:2]))


def gen_index(tier, seed):
    yield {'route': '/'}


def ev_index(case, rec):
    c = client()
    app = _APP['app']
    st, resp = rec.call(c.get, '/')
    if st != 'ok' or resp.status_code != 200:
        rec.fail('index route failed', site='api:index', observed=resp if st != 'ok' else resp.status_code, case=case)
        return
    rec.nontriv()
    body = resp.data.decode()
    rec.state(body)
    rules = sorted(r.rule for r in app.url_map.iter_rules() if r.endpoint != 'static')
    missing = [r for r in rules if repr(r) not in body and ('"%s"' % r) not in body]
    if missing or len(rules) < 3:
        rec.fail('the index route does not list every endpoint', site='api:index:list', observed=body, expected=rules, case=case)
    # ... and keeps doing so: again after other traffic, from a second client, several times
    for i in range(4):
        c.get('/vincinv', query_string={'lat1': '-37.5', 'lon1': '144.25', 'lat2': '-37.3', 'lon2': '143.5'})
        cl = app.test_client() if i % 2 else c
        again = cl.get('/')
        rec.transitions += 2
        b2 = again.data.decode()
        if again.status_code != 200 or [r for r in rules if repr(r) not in b2 and ('"%s"' % r) not in b2]:
            rec.fail('the index route stops listing every endpoint after the first request', site='api:index:repeat', observed=b2,
                     expected=rules, case=case, coords={'request': i + 2})
            break
    # every listed route must be served
    for r in rules:
        rr = c.get(r, query_string={'lat1': '0', 'lon1': '0', 'lat2': '1', 'lon2': '1', 'azimuth1to2': '1', 'ell_dist': '1'})
        rec.transitions += 1
        if rr.status_code != 200:
            rec.fail('a listed endpoint does not answer', site='api:index:serve', observed=[r, rr.status_code], case=case)
    rec.outcome('index-ok')
    rec.sample({'rules': rules, 'body': body})


# --- the same numbers in every spelling the query string may carry ---------------------------------------------
# (spelling as it stands in the raw URL, text the application receives after URL decoding)
SPELL = [('{v}', None), ('%2B{v}', '+'), ('+{v}', ' '), ('{v}%20', None), ('%20{v}', None), ('00{v}', None), ('{v}e0', None), ('{v}E%2B00', None)]


def spellings(text):
    """raw-URL spellings of the number written as `text` (sign handled): each must be read as the same float"""
    neg = text.startswith('-')
    body = text[1:] if neg else text
    out = []
    for pat, _ in SPELL:
        if pat.startswith(('%2B', '+')) and neg:
            continue
        if pat.startswith('00'):
            out.append(('-' if neg else '') + '00' + body)
            continue
        out.append(pat.format(v=text))
    # a bare leading / trailing decimal point
    if body.startswith('0.') and len(body) > 2:
        out.append(('-' if neg else '') + body[1:])
    if '.' not in body and 'e' not in body.lower():
        out.append(text + '.')
    if body.endswith('.0'):
        out.append(text[:-1])
    return out


def gen_spell(tier, seed):
    yield {'route': 'vincinv', 'vals': ['-37.57037203', '144.25295244', '-0.3', '0.15'], 'keys': ['lat1', 'lon1', 'lat2', 'lon2']}
    yield {'route': 'vincinv', 'vals': ['45.3', '-0.5', '37', '10.0'], 'keys': ['lat1', 'lon1', 'lat2', 'lon2']}
    yield {'route': 'vincdir', 'vals': ['-0.3', '144', '0.15', '54972.271'], 'keys': ['lat1', 'lon1', 'azimuth1to2', 'ell_dist']}
    yield {'route': 'vincdir', 'vals': ['45.0', '-179.3', '306.520537', '1000'], 'keys': ['lat1', 'lon1', 'azimuth1to2', 'ell_dist']}


def ev_spell(case, rec):
    c = client()
    route, keys, vals = case['route'], case['keys'], case['vals']
    for ft, tt in itertools.product(TYPES, TYPES):
        extra = ('&from_angle_type=%s' % ft if ft else '') + ('&to_angle_type=%s' % tt if tt else '')
        base = c.get('/%s?%s%s' % (route, '&'.join('%s=%s' % kv for kv in zip(keys, vals)), extra))
        rec.transition()
        if base.status_code != 200:
            rec.skip('canonical spelling not answered')
            continue
        for i, k in enumerate(keys):
            for sp in spellings(vals[i]):
                v2 = list(vals)
                v2[i] = sp
                url = '/%s?%s%s' % (route, '&'.join('%s=%s' % kv for kv in zip(keys, v2)), extra)
                st, resp = rec.call(c.get, url)
                rec.nontriv((route, ft, tt, k, sp))
                one = dict(case, url=url)
                if st != 'ok' or resp.status_code != 200 or resp.data != base.data:
                    rec.fail('the same number written as %r in the query string is not answered like its plain spelling' % sp,
                             site='api:%s:spelling' % route, observed=resp if st != 'ok' else [resp.status_code, resp.data[:160].decode('latin1')],
                             expected=[200, base.data[:160].decode('latin1')], case=one, coords={'key': k, 'spelling': sp, 'from': ft, 'to': tt})
                    rec.outcome('spelling-bad')
                else:
                    rec.outcome('spelling-ok')
        # request headers as real clients send them (curl, python-requests, wget: Accept: */*; browsers; fetch): the answer is the same
        # JSON document with status 200 whatever the client says it accepts
        for hd in ({'Accept': '*/*'}, {'Accept': 'application/json'}, {'Accept': 'text/html,application/xhtml+xml,application/xml;q=0.9,*/*;q=0.8'},
                   {'Accept': 'application/json, text/plain, */*', 'X-Requested-With': 'XMLHttpRequest'}, {'Accept': 'text/html'},
                   {'User-Agent': 'curl/8.5.0', 'Accept': '*/*', 'Accept-Encoding': 'gzip, deflate, br', 'Accept-Language': 'de-DE,de;q=0.9'},
                   {'Accept-Charset': 'iso-8859-1', 'Connection': 'close'}, {'Content-Type': 'text/plain'}, {'Cookie': 'from_angle_type=dms; to_angle_type=dms'}):
            url = '/%s?%s%s' % (route, '&'.join('%s=%s' % kv for kv in zip(keys, vals)), extra)
            st, resp = rec.call(c.get, url, headers=hd)
            rec.nontriv((route, ft, tt, 'headers', tuple(sorted(hd.items()))))
            if st != 'ok' or resp.status_code != 200 or resp.data != base.data or 'json' not in (resp.content_type or ''):
                rec.fail('the same query sent with request headers %r is not answered with the same JSON document' % (hd,), site='api:%s:request-headers' % route,
                         observed=resp if st != 'ok' else [resp.status_code, resp.content_type, resp.data[:160].decode('latin1')],
                         expected=[200, 'application/json', base.data[:160].decode('latin1')], case=dict(case, url=url, headers=hd), coords={'from': ft, 'to': tt})
                rec.outcome('headers-bad')
            else:
                rec.outcome('headers-ok')
        # parameters the endpoint does not know (cache busters, campaign tags, a JSONP callback name, a repeated switch of a proxy):
        # 'for every query' - they are not the library's arguments and the answer is the same document
        for ex in ('_=1696239999123', 'utm_source=docs', 'v=2', 'callback=cb', 'format=json', 'ellipsoid=grs80', 'debug', 'x=', 'lat3=1.0'):
            q0 = '&'.join('%s=%s' % kv for kv in zip(keys, vals))
            for url in ('/%s?%s%s&%s' % (route, q0, extra, ex), '/%s?%s&%s%s' % (route, ex, q0, extra)):
                st, resp = rec.call(c.get, url)
                rec.nontriv((route, ft, tt, 'extra', ex, url[:12]))
                if st != 'ok' or resp.status_code != 200 or resp.data != base.data:
                    rec.fail('the same query carrying the unrelated parameter %r is not answered like the query without it' % ex,
                             site='api:%s:extra-parameter' % route, observed=resp if st != 'ok' else [resp.status_code, resp.data[:160].decode('latin1')],
                             expected=[200, base.data[:160].decode('latin1')], case=dict(case, url=url), coords={'from': ft, 'to': tt, 'extra': ex})
                    rec.outcome('extra-bad')
                else:
                    rec.outcome('extra-ok')
        # the parameters of a query string carry names: their ORDER is free (every permutation of the numeric parameters, with the
        # angle-type switches in front, behind and in between)
        sw = [s for s in extra.split('&') if s]
        for perm in itertools.permutations(range(len(keys))):
            num = ['%s=%s' % (keys[i], vals[i]) for i in perm]
            for parts in (num + sw, sw + num, num[:2] + sw + num[2:], num[:1] + sw[:1] + num[1:] + sw[1:]):
                url = '/%s?%s' % (route, '&'.join(parts))
                st, resp = rec.call(c.get, url)
                rec.nontriv((route, ft, tt, 'order', tuple(parts)))
                if st != 'ok' or resp.status_code != 200 or resp.data != base.data:
                    rec.fail('the same query with its parameters in another order is answered differently', site='api:%s:parameter-order' % route,
                             observed=resp if st != 'ok' else [resp.status_code, resp.data[:160].decode('latin1')],
                             expected=[200, base.data[:160].decode('latin1')], case=dict(case, url=url), coords={'from': ft, 'to': tt, 'order': parts})
                    rec.outcome('order-bad')
                    break
            else:
                continue
            break
        else:
            rec.outcome('order-ok')
    rec.sample(case)


def ev_context(case, rec):
    """the application used in-process by a caller who HOLDS an application / request context (a pytest fixture, flask shell, a CLI
    command, a background job): a sequence of queries with every combination of angle types, each answered exactly like the same
    query sent without any held context"""
    c = client()
    app = _APP['app']
    route, keys, vals = case['route'], case['keys'], case['vals']
    combos = list(itertools.product(TYPES, TYPES))
    order = combos if case['order'] == 'fwd' else combos[::-1] if case['order'] == 'rev' else combos[4:] + combos[:4]

    def url_of(ft, tt):
        return '/%s?%s%s%s' % (route, '&'.join('%s=%s' % kv for kv in zip(keys, vals)), '&from_angle_type=%s' % ft if ft else '',
                               '&to_angle_type=%s' % tt if tt else '')
    plain = {(ft, tt): c.get(url_of(ft, tt)) for ft, tt in combos}
    holders = {'app_context': app.app_context, 'test_request_context': lambda: app.test_request_context('/'),
               'nested app_context': app.app_context}
    with holders[case['holder']]():
        for ft, tt in order * 2:
            st, resp = rec.call(app.test_client().get if case['holder'] == 'nested app_context' else c.get, url_of(ft, tt))
            rec.nontriv((route, case['holder'], case['order'], ft, tt))
            b = plain[(ft, tt)]
            if st != 'ok' or resp.status_code != b.status_code or resp.data != b.data:
                rec.fail('a query sent while the caller holds a %s is answered differently from the same query sent on its own (earlier queries in '
                         'the same context used other angle types)' % case['holder'], site='api:%s:held-context' % route,
                         observed=resp if st != 'ok' else [resp.status_code, resp.data[:160].decode('latin1')],
                         expected=[b.status_code, b.data[:160].decode('latin1')], case=dict(case, url=url_of(ft, tt)), coords={'from': ft, 'to': tt})
                rec.outcome('context-bad')
            else:
                rec.outcome('context-ok')
    rec.sample(case)


def gen_context(tier, seed):
    for g in gen_spell(tier, seed):
        for holder in ('app_context', 'test_request_context', 'nested app_context'):
            for order in ('fwd', 'rev', 'rot'):
                yield dict(g, holder=holder, order=order)


def ev_spell_single(case, rec):
    if 'url' in case:
        resp = client().get(case['url'])
        if resp.status_code != 200:
            rec.fail('query not answered', site='api:%s:spelling' % case['route'], observed=resp.status_code)
        return
    ev_spell(case, rec)


# --- overlapping requests: every interleaving of two requests at the line granularity of the application module ---------
from gpmc import threads as _thr
_TQ = {
    'inv_dd': ('/vincinv', {'lat1': '-37.95103342', 'lon1': '144.42486789', 'lat2': '-37.65282114', 'lon2': '143.92649553'}),
    'inv_dms_dms': ('/vincinv', {'lat1': '-37.57037203', 'lon1': '144.25295244', 'lat2': '-37.39101561', 'lon2': '143.55353839',
                                 'from_angle_type': 'dms', 'to_angle_type': 'dms'}),
    'inv_dd_dms': ('/vincinv', {'lat1': '10.5', 'lon1': '20.25', 'lat2': '-12.75', 'lon2': '40.5', 'to_angle_type': 'dms'}),
    'dir_dd': ('/vincdir', {'lat1': '-37.95103342', 'lon1': '144.42486789', 'azimuth1to2': '306.8681592', 'ell_dist': '54972.271'}),
    'dir_dms_dms': ('/vincdir', {'lat1': '-37.57037203', 'lon1': '144.25295244', 'azimuth1to2': '306.520537', 'ell_dist': '54972.271',
                                 'from_angle_type': 'dms', 'to_angle_type': 'dms'}),
    'dir_dms_dd': ('/vincdir', {'lat1': '45.3', 'lon1': '-0.3', 'azimuth1to2': '90.3', 'ell_dist': '1e6', 'from_angle_type': 'dms'}),
    'index': ('/', {}),
}


def _treq(name):
    path, q = _TQ[name]

    def factory():
        from api.app import app

        def go():
            r = app.test_client().get(path, query_string=q)
            return [r.status_code, r.data.decode('latin1')]
        return go
    return factory


T_CALLS = {n: _treq(n) for n in _TQ}
gen_threads, ev_threads = _thr.make(T_CALLS, ['api/app.py'], 'api:threads', triple=('inv_dd', 'inv_dms_dms', 'dir_dms_dd'))


from gpmc import interp as _ip


SUBCHECKS = [
    Sub('spellings', gen_spell, ev_spell_single, chunk=1, floor=100, guard=False),
    Sub('held_context', gen_context, ev_context, chunk=1, floor=20, guard=False),
    Sub('threads', gen_threads, ev_threads, chunk=1, floor=10, poison=False, fresh=True, timeout=7200),
    Sub('vincdir', gen_dir, ev_dir, chunk=1, floor=500, guard=True, envs=3),
    Sub('vincinv', gen_inv, ev_inv, chunk=4, floor=500, guard=True, envs=3),
    Sub('index', gen_index, ev_index, chunk=1, floor=1, parallel=False, guard=True),
    Sub('interpreter', *_ip.make('C20', 'api'), chunk=1, floor=5, poison=False),
]


def bounds(tier, seed):
    return {'angle_type_combinations': 9, 'dd_values': DD, 'hp_values': HP, 'depth': 1}
