"""C16 — local-frame rotations preserve geometry and covariance; error measures match their definitions.

  frame    : rotation_matrix / enu2xyz / xyz2enu on latitude {+-90, +-45, 0, fill} x longitude [-360, 360] x vectors
             (axes, diagonals, |v| to 1e7) x input types: R^T R = I, det = +1, columns = east / north / ellipsoid normal;
             depth 2: local -> Cartesian -> local is the identity and preserves length
  vcv      : vcv_cart2local / vcv_local2cart on the PSD lattice (rank 0..3, condition 1e8, 7 rotations) and 3x1 columns:
             symmetry, eigenvalues, trace, round trip; a 3x1 column is the rotated diagonal
  ellipse  : error_ellipse = sqrt of the eigenvalues of the horizontal 2x2 block, a >= b >= 0, orientation = bearing of
             the major eigenvector (mod 180); relative_error = ellipse of var1 + var2 - cov12 - cov12^T
  ktable   : k_val95 for every integer dof in -5..200 against the two-sided Student-t quantile (scipy), 5 decimals
"""
import math

import numpy as np
from scipy import stats, special

import geodepy.angles as ga
from geodepy.geodesy import enu2xyz, xyz2enu
from geodepy.statistics import (rotation_matrix, vcv_cart2local, vcv_local2cart, error_ellipse, relative_error, k_val95)
from gpmc import cfg
from gpmc.cfg import uniq, fill
from gpmc.core import Sub, HarnessError
from gpmc.checks.c06 import psd_lattice, rotations

PROPERTY = 'C16'
ASSUMPTIONS = [
    'ellipsoid normal = (cos lat cos lon, cos lat sin lon, sin lat); east = (-sin lon, cos lon, 0)',
    'eigenvalues compared with numpy.linalg.eigvalsh; orientation skipped when a - b is below the resolution of the matrix',
    'Student-t quantile from scipy.stats.t.ppf(0.975, dof), cross-checked with scipy.special.stdtrit at run time',
]


def prepare(tier, seed):
    for d in (1, 2, 7, 30, 120):
        if abs(stats.t.ppf(0.975, d) - special.stdtrit(d, 0.975)) > 1e-9:
            raise HarnessError('scipy t quantile self-check failed')


def lats(tier, seed):
    return uniq([-90.0, -45.0, 0.0, 45.0, 90.0, -89.999999, 1e-9, -33.5] + fill(-80.0, 80.0, 10.0 if tier == 'quick' else 2.5, seed, 51))


def lons(tier, seed):
    return uniq([-360.0, -270.0, -180.0, -90.0, 0.0, 90.0, 180.0, 270.0, 360.0, 133.88, -1e-9] +
                fill(-350.0, 350.0, 35.0 if tier == 'quick' else 7.0, seed, 52))


VECS = [[1.0, 0.0, 0.0], [0.0, 1.0, 0.0], [0.0, 0.0, 1.0], [1.0, 1.0, 1.0], [-3.0, 4.0, 12.0], [1e7, -1e7, 1e7], [1e-3, 0.0, -1e7],
        [0.0, 0.0, 0.0], [6378137.0, 1.0, -0.5], [1200.0, 250.0, 3.0], [-128.0, 127.0, -32768.0]]


def gen_frame(tier, seed):
    lo = lons(tier, seed)
    for la in lats(tier, seed):
        yield {'lat': la, 'lons': lo, 'kind': 'float'}
    # the hash twins -1 / -2 one after the other in one process, on either axis, as floats and ints, in both orders
    for a, b in ((-1.0, -2.0), (-2.0, -1.0), (-1, -2), (-2, -1)):
        yield {'lat': a, 'lons': [133.0, b, a], 'kind': 'float', 'then': [[b, 133.0], [a, 133.0], [45.0, a], [45.0, b], [45.0, a], [b, b], [a, a]]}
    yield {'lat': -24, 'lons': [134, -1, 0], 'kind': 'float'}            # ints
    yield {'lat': np.int16(-24), 'lons': [np.int16(134), np.int8(-1), np.int32(0)], 'kind': 'float'}
    for kind in cfg.INTYPES[1:] + cfg.NUMFORMS:
        yield {'lat': -23.67, 'lons': [133.88, -0.3, 0.15], 'kind': kind}
        yield {'lat': -0.4, 'lons': [-0.3], 'kind': kind}


def ev_frame(case, rec):
    if case.get('then'):
        ev_frame1({k: v for k, v in case.items() if k != 'then'}, rec)
        for la, lo in case['then']:
            ev_frame1({'lat': la, 'lons': [lo], 'kind': case['kind']}, rec)
        return
    ev_frame1(case, rec)


def ev_frame1(case, rec):
    la = case['lat']
    for lo in case['lons']:
        one = dict(case, lons=[lo])
        if case['kind'] == 'float':
            st, R = rec.call(rotation_matrix, la, lo)
            if st != 'ok':
                rec.fail('rotation_matrix raised', site='statistics:rotation_matrix', observed=R, case=one)
                continue
            rec.nontriv((la, lo))
            rec.state(('R', R.tobytes().hex()[:64]))
            pl, ll = math.radians(la), math.radians(lo)
            up = np.array([math.cos(pl) * math.cos(ll), math.cos(pl) * math.sin(ll), math.sin(pl)])
            east = np.array([-math.sin(ll), math.cos(ll), 0.0])
            north = np.cross(up, east)
            err_o = float(np.max(np.abs(R.T @ R - np.eye(3))))
            err_d = abs(float(np.linalg.det(R)) - 1.0)
            err_c = max(float(np.max(np.abs(R[:, 2] - up))), float(np.max(np.abs(R[:, 0] - east))), float(np.max(np.abs(R[:, 1] - north))))
            rec.dev('orthonormal', err_o, one)
            rec.dev('columns', err_c, one)
            if not (err_o <= 1e-15 * 4 and err_d <= 1e-15 * 4 and err_c <= 1e-15 * 4):
                rec.fail('local frame is not a right-handed orthonormal rotation with east/north/ellipsoid-normal columns',
                         site='statistics:rotation_matrix:frame', observed=R, expected=np.stack([east, north, up], axis=1).tolist(),
                         tol=4e-15, case=one, coords={'lat': la, 'lon': lo})
                rec.outcome('frame-bad')
            else:
                rec.outcome('frame-ok')
            lat_a, lon_a = la, lo
        else:
            try:
                lat_a, lon_a = cfg.as_type(la, case['kind']), cfg.as_type(lo, case['kind'])
            except Exception:
                rec.skip('input object could not be built (C08)')
                continue
        if case['kind'] in cfg.NUMFORMS:
            # numpy-scalar latitude / longitude (e.g. elements of a float32 array): the frame must be the one of their value
            ua, uo = cfg.unwrap(lat_a), cfg.unwrap(lon_a)
            st, Rn = rec.call(rotation_matrix, ua, uo)
            Rf = rotation_matrix(lat_a.dec(), lon_a.dec())
            M0 = np.array([[4.0, 1.0, 0.5], [1.0, 3.0, -1.0], [0.5, -1.0, 9.0]])
            st2, Vn = rec.call(vcv_cart2local, M0.copy(), ua, uo)
            if st != 'ok' or st2 != 'ok' or float(np.max(np.abs(Rn - Rf))) > 4e-16 or float(np.max(np.abs(Vn - Rf.T @ M0 @ Rf))) > 1e-14:
                rec.fail('rotation_matrix / vcv_cart2local lose precision (or differ) for latitude/longitude given as %s' % type(ua).__name__,
                         site='statistics:rotation_matrix:input-form', observed=Rn, expected=Rf.tolist(), case=one, coords={'kind': case['kind']})
        for v in VECS:
            st, x = rec.call(enu2xyz, cfg.unwrap(lat_a), cfg.unwrap(lon_a), v[0], v[1], v[2])
            if st != 'ok':
                rec.fail('enu2xyz raised', site='geodesy:enu2xyz', observed=x, case=one)
                continue
            if case['kind'] != 'float':
                x2 = enu2xyz(lat_a.dec(), lon_a.dec(), v[0], v[1], v[2])
                rec.nontriv((la, lo, case['kind'], tuple(v)))
                if tuple(x) != tuple(x2):
                    rec.fail('angle-class arguments give a different result from their decimal-degree values', site='geodesy:enu2xyz:intype',
                             observed=list(x), expected=list(x2), case=one)
                continue
            if all(float(c).is_integer() for c in v):
                # whole-number components in every exact numeric spelling (numpy unsigned / small signed integers included)
                cfg.scalar_forms_agree(rec, lambda e_, n_, u_: enu2xyz(lat_a, lon_a, e_, n_, u_), list(map(float, v)), [0, 1, 2], x,
                                       'geodesy:enu2xyz', one, {'lat': la, 'lon': lo, 'vec': v}, 'enu2xyz')
                cfg.scalar_forms_agree(rec, lambda x_, y_, z_: xyz2enu(lat_a, lon_a, x_, y_, z_), list(map(float, v)), [0, 1, 2],
                                       xyz2enu(lat_a, lon_a, float(v[0]), float(v[1]), float(v[2])),
                                       'geodesy:xyz2enu', one, {'lat': la, 'lon': lo, 'vec': v}, 'xyz2enu')
            n0, n1 = math.sqrt(sum(c * c for c in v)), math.sqrt(sum(float(c) ** 2 for c in x))
            st, b = rec.call(xyz2enu, lat_a, lon_a, x[0], x[1], x[2])
            if st != 'ok':
                rec.fail('xyz2enu raised', site='geodesy:xyz2enu', observed=b, case=one)
                continue
            back = math.sqrt(sum((float(p) - q) ** 2 for p, q in zip(b, v)))
            if not (abs(n1 - n0) <= 1e-14 * max(n0, 1e-300) * 4 and back <= 1e-14 * max(n0, 1e-300) * 8):
                rec.fail('local <-> Cartesian vector conversions are not exact inverses / do not preserve length', site='geodesy:enu-xyz',
                         observed=[list(map(float, x)), list(map(float, b))], expected=v, tol='1e-14 relative', case=one,
                         coords={'lat': la, 'lon': lo, 'vec': v})
            # the Cartesian image equals R v with the exact frame
            pl, ll = math.radians(la), math.radians(lo)
            Rx = np.array([[-math.sin(ll), -math.sin(pl) * math.cos(ll), math.cos(pl) * math.cos(ll)],
                           [math.cos(ll), -math.sin(pl) * math.sin(ll), math.cos(pl) * math.sin(ll)],
                           [0.0, math.cos(pl), math.sin(pl)]]) @ np.array(v)
            if float(np.max(np.abs(Rx - np.array([float(c) for c in x])))) > 1e-14 * max(n0, 1e-300) * 8:
                rec.fail('enu2xyz is not east*e + north*n + up*u', site='geodesy:enu2xyz:value', observed=list(map(float, x)),
                         expected=Rx.tolist(), case=one)
    rec.sample({'case': dict(case, lons=case['lons'][:2])})


# --------------------------------------------------------------------------------------------
POS = [(-90.0, 0.0), (90.0, 123.0), (0.0, 0.0), (0.0, 180.0), (-23.67, 133.88), (45.0, -360.0), (-45.0, 270.0), (12.3, -77.7)]


def gen_vcv(tier, seed):
    mats = psd_lattice('thorough')
    cols = [[[1e-4], [2e-4], [3e-4]], [[0.0], [0.0], [0.0]], [[1.0], [1e-8], [1e-4]], [[5.0], [5.0], [5.0]],
            [[1.0], [1.0], [4.0]], [[4.0], [0.0], [9.0]], [[100.0], [25.0], [1.0]]]      # whole numbers: also given as integer-typed arrays
    for p in POS:
        yield {'pos': list(p), 'mats': mats, 'cols': cols}


def ev_vcv(case, rec):
    la, lo = case['pos']
    R = None
    for m in case['mats']:
        M = np.array(m, dtype=float)
        one = dict(case, mats=[m], cols=[])
        for name, f, g in (('cart2local', vcv_cart2local, vcv_local2cart), ('local2cart', vcv_local2cart, vcv_cart2local)):
            Min = M.copy()
            st, out = rec.call(f, Min, la, lo)
            if not np.array_equal(Min, M):
                rec.fail('%s modified the matrix supplied by the caller' % name, site='statistics:vcv_' + name + ':argument', observed=Min,
                         expected=m, case=one)
            if st != 'ok':
                rec.fail('%s raised on a PSD 3x3 matrix' % name, site='statistics:vcv_' + name, observed=out, case=one)
                continue
            rec.nontriv((la, lo, repr(m), name))
            rec.state((name, out.tobytes().hex()[:48]))
            cfg.forms_agree(rec, lambda vf: f(vf, la, lo), m, out, 'statistics:vcv_' + name, one, {'lat': la, 'lon': lo}, name, matrix_class=True)
            scale = max(float(np.max(np.abs(M))), 1e-300)
            sym = float(np.max(np.abs(out - out.T))) / scale
            w0, w1 = np.linalg.eigvalsh(M), np.linalg.eigvalsh((out + out.T) / 2)
            de = float(np.max(np.abs(w0 - w1))) / scale
            dt = abs(float(np.trace(out)) - float(np.trace(M))) / scale
            st, back = rec.call(g, out, la, lo)
            rt = float(np.max(np.abs(back - M))) / scale if st == 'ok' else float('inf')
            rec.dev('vcv_eig_rel', de, one)
            rec.dev('vcv_roundtrip_rel', rt, one)
            Rm = rotation_matrix(la, lo)
            exp = Rm.T @ M @ Rm if name == 'cart2local' else Rm @ M @ Rm.T
            dv = float(np.max(np.abs(out - exp))) / scale
            if not (sym <= 1e-14 and de <= 1e-13 and dt <= 1e-13 and rt <= 1e-13 and dv <= 1e-14):
                rec.fail('rotating a covariance between frames does not preserve symmetry / eigenvalues / trace or does not round-trip',
                         site='statistics:vcv_' + name + ':invariants', observed=out, expected=exp.tolist(), tol='1e-13 relative',
                         case=one, coords={'sym': sym, 'eig': de, 'trace': dt, 'roundtrip': rt, 'value': dv})
                rec.outcome('vcv-bad')
            else:
                rec.outcome('vcv-ok')
    # an integer-typed covariance array is a legal numpy input
    Mi = np.array([[4, 1, 0], [1, 3, -1], [0, -1, 9]])
    for name, f in (('cart2local', vcv_cart2local), ('local2cart', vcv_local2cart)):
        st, out = rec.call(f, Mi, la, lo)
        Rm = rotation_matrix(la, lo)
        exp = Rm.T @ Mi @ Rm if name == 'cart2local' else Rm @ Mi @ Rm.T
        if st != 'ok' or float(np.max(np.abs(out - exp))) > 1e-13:
            rec.fail('%s mishandles an integer-typed covariance array' % name, site='statistics:vcv_' + name + ':input-form', observed=out,
                     expected=exp.tolist(), case=dict(case, mats=[], cols=[]))
    for c in case['cols']:
        C = np.array(c, dtype=float)
        one = dict(case, mats=[], cols=[c])
        Rm = rotation_matrix(la, lo)
        for name, f in (('cart2local', vcv_cart2local), ('local2cart', vcv_local2cart)):
            st, out = rec.call(f, C.copy(), la, lo)
            if st != 'ok':
                rec.fail('%s raised on a 3x1 variance column' % name, site='statistics:vcv_' + name + ':column', observed=out, case=one)
                continue
            rec.nontriv((la, lo, repr(c), name))
            D = np.diag(C[:, 0])
            exp = np.diag(Rm.T @ D @ Rm if name == 'cart2local' else Rm @ D @ Rm.T).reshape(3, 1)
            scale = max(float(np.max(np.abs(C))), 1e-300)
            if not (isinstance(out, np.ndarray) and out.shape == (3, 1) and float(np.max(np.abs(out - exp))) / scale <= 1e-14):
                rec.fail('a 3x1 variance column is not returned as the rotated diagonal', site='statistics:vcv_' + name + ':column',
                         observed=out, expected=exp.tolist(), case=one)
            else:
                rec.outcome('col-ok')
                # the same column held in other array objects (read-only, strided, integer / float32 dtypes where exact)
                cfg.forms_agree(rec, lambda vf: f(vf, la, lo), c, out, 'statistics:vcv_' + name + ':column', one, {'lat': la, 'lon': lo}, name + ' (3x1 column)', matrix_class=True)
    rec.sample({'pos': case['pos'], 'first': case['mats'][0]})


# --------------------------------------------------------------------------------------------
def gen_ell(tier, seed):
    mats = psd_lattice('thorough')
    extra = [[[4.0, 0.0, 0.0], [0.0, 1.0, 0.0], [0.0, 0.0, 9.0]], [[1.0, 0.0, 0.0], [0.0, 4.0, 0.0], [0.0, 0.0, 0.0]],
             [[2.0, 1.0, 0.0], [1.0, 2.0, 0.0], [0.0, 0.0, 1.0]], [[2.0, -1.0, 0.0], [-1.0, 2.0, 0.0], [0.0, 0.0, 1.0]],
             [[1.0, 1.0, 0.0], [1.0, 1.0, 0.0], [0.0, 0.0, 0.0]], [[3.0, 0.0, 0.0], [0.0, 3.0, 0.0], [0.0, 0.0, 3.0]]]
    # nearly uncorrelated components (correlation 1e-6 .. 1e-18 of either sign, either component the larger one, several scales):
    # the major axis lies within a hair of a grid axis; any formulation that differences nearly equal numbers loses it here
    for sc in (1.0, 1e-4, 2.5e-9, 3.0e5):
        for ve, vn in ((1.0, 4.0), (4.0, 1.0), (1.0, 1.0000001), (2.0, 1.0), (1.0, 1.5), (1.2345678, 4.7654321), (4.7654321, 1.2345678),
                       (6.016902047785154, 6.424003682947768), (0.3, 0.7), (math.pi, math.e), (math.e, math.pi), (1.0 / 3.0, 2.0 / 3.0)):
            for corr in (1e-6, -1e-6, 1e-9, -1e-10, 1e-12, -1e-14, 1e-15, 1e-16, -1e-18, 3e-21):
                c = corr * math.sqrt(ve * vn) * sc
                extra.append([[ve * sc, c, 0.0], [c, vn * sc, 0.0], [0.0, 0.0, sc]])
    for i in range(0, len(mats) + len(extra), 8):
        yield {'mats': (mats + extra)[i:i + 8]}


def ellipse_oracle(M):
    B = np.array([[M[0][0], M[0][1]], [M[1][0], M[1][1]]], dtype=float)
    B = (B + B.T) / 2
    w, V = np.linalg.eigh(B)
    a, b = math.sqrt(max(w[1], 0.0)), math.sqrt(max(w[0], 0.0))
    ve = V[:, 1]      # major eigenvector (east, north)
    brg = math.degrees(math.atan2(ve[0], ve[1])) % 180.0
    return a, b, brg, w


def ev_ell(case, rec):
    for m in case['mats']:
        M = np.array(m, dtype=float)
        one = {'mats': [m]}
        st, r = rec.call(error_ellipse, M)
        if not np.array_equal(M, np.array(m, dtype=float)):
            rec.fail('error_ellipse modified the matrix supplied by the caller', site='statistics:error_ellipse:argument', observed=M, expected=m,
                     case={'mats': [m]})
            M = np.array(m, dtype=float)
        a, b, brg, w = ellipse_oracle(m)
        scale = max(abs(w[1]), 1e-300)
        if st == 'ok':
            cfg.forms_agree(rec, error_ellipse, m, r, 'statistics:error_ellipse', one, {}, 'error_ellipse', matrix_class=True)
        if st != 'ok':
            rec.fail('error_ellipse raised on a positive semi-definite matrix', site='statistics:error_ellipse:raise', observed=r,
                     case=one, coords={'eig': w.tolist()})
            rec.outcome('raise')
            continue
        rec.nontriv(repr(m))
        rec.state(('ell',) + tuple(float(v).hex() for v in r))
        ra, rb, ro = r
        bad = False
        tol = 1e-7 * math.sqrt(scale) + 1e-300
        if not (abs(ra - a) <= tol and abs(rb - b) <= max(tol, 2e-8 * math.sqrt(scale)) and ra >= rb >= 0):
            bad = True
            rec.fail('error ellipse semi-axes are not the square roots of the eigenvalues of the horizontal block (major >= minor >= 0)',
                     site='statistics:error_ellipse:axes', observed=[ra, rb], expected=[a, b], tol=tol, case=one)
        if (w[1] - w[0]) > 1e-6 * scale:
            do = abs(((ro % 180.0) - brg + 90.0) % 180.0 - 90.0)
            rec.dev('orientation_deg', do, one)
            if not (do <= 1e-6):
                bad = True
                rec.fail('orientation is not the bearing of the major axis', site='statistics:error_ellipse:orientation', observed=ro,
                         expected=brg, tol=1e-6, case=one)
        rec.outcome('ell-bad' if bad else 'ell-ok')
        # relative error between two stations built from this matrix
        # a jointly PSD pair of stations: cov12 = 0.5 S1 Q S2 with S = symmetric square roots, Q a rotation
        sc3 = max(float(np.max(np.abs(np.linalg.eigvalsh(M)))), 0.0) or 1.0
        V1, V2 = M, M * 0.5 + np.eye(3) * 0.1 * sc3

        def sq(A):
            ww, VV = np.linalg.eigh((A + A.T) / 2)
            return VV @ np.diag(np.sqrt(np.clip(ww, 0.0, None))) @ VV.T
        C12 = 0.5 * sq(V1) @ rotations()[4] @ sq(V2)
        if m is case['mats'][0]:
            # whole-number blocks with strongly correlated stations (negative elements in var1 + var2 - cov12 - cov12^T), held in
            # every integer dtype incl. unsigned ones
            I1, I2, I12 = [[4, 1, 0], [1, 3, 1], [0, 1, 9]], [[9, 2, 1], [2, 8, 0], [1, 0, 5]], [[5, 4, 0], [4, 5, 0], [0, 0, 1]]
            stb, base = rec.call(relative_error, -23.67, 133.88, np.array(I1, float), np.array(I2, float), np.array(I12, float))
            for (n1, a1), (n2, a2), (n3, a3) in zip(cfg.matrix_forms(I1), cfg.matrix_forms(I2), cfg.matrix_forms(I12)):
                stf, rf = rec.call(relative_error, -23.67, 133.88, a1, a2, a3)
                if stb != 'ok' or stf != 'ok' or cfg.flat(rf) != cfg.flat(base):
                    rec.fail('relative_error answers differently when the same covariance blocks are held in %s arrays' % n1,
                             site='statistics:relative_error:matrix-form', observed=rf, expected=base, case=one, coords={'form': n1})
        for (la, lo) in ((-23.67, 133.88), (90.0, 0.0), (0.0, -90.0)):
            st, rr = rec.call(relative_error, la, lo, V1, V2, C12)
            if st != 'ok':
                rec.fail('relative_error raised', site='statistics:relative_error:raise', observed=rr, case=one)
                continue
            R = rotation_matrix(la, lo)
            rel = R.T @ (V1 + V2 - C12 - C12.T) @ R
            ea, eb, eo, ew = ellipse_oracle(rel.tolist())
            up = math.sqrt(max(rel[2, 2], 0.0))
            sc = math.sqrt(max(abs(ew[1]), 1e-300))
            okk = abs(rr[0] - ea) <= 1e-7 * sc and abs(rr[1] - eb) <= 1e-6 * sc and abs(rr[3] - up) <= 1e-9 * max(up, 1e-300) + 1e-12 * sc
            if (ew[1] - ew[0]) > 1e-6 * abs(ew[1]):
                okk = okk and abs(((rr[2] % 180.0) - eo + 90.0) % 180.0 - 90.0) <= 1e-6
            if not okk:
                rec.fail('relative error is not the ellipse of var1 + var2 - cov12 - cov12^T in the local frame',
                         site='statistics:relative_error:value', observed=list(map(float, rr)), expected=[ea, eb, eo, up], case=one,
                         coords={'lat': la, 'lon': lo})
            else:
                rec.outcome('rel-ok')
    rec.sample({'first': case['mats'][0]})


def gen_k(tier, seed):
    yield {'dofs': list(range(-5, 201))}


def ev_k(case, rec):
    for d in case['dofs']:
        st, k = rec.call(k_val95, d)
        one = {'dofs': [d]}
        if st != 'ok':
            rec.fail('k_val95 raised on an integer', site='statistics:k_val95', observed=k, case=one)
            continue
        rec.nontriv(d)
        rec.state(('k', d, float(k).hex()))
        if d < 1:
            exp = round(float(stats.t.ppf(0.975, 1)), 4)     # documented clamp: value for dof = 1 (tabulated 12.7062)
            ok = abs(k - stats.t.ppf(0.975, 1)) <= 5e-5
        elif d > 120:
            exp, ok = 1.96, k == 1.96
        else:
            exp = float(stats.t.ppf(0.975, d))
            ok = abs(k - exp) <= 0.5e-5 + 1e-9
        rec.outcome('k-ok' if ok else 'k-bad')
        if not ok:
            rec.fail('tabulated 95%% coverage factor differs from the two-sided Student-t quantile (5 decimals)', site='statistics:k_val95:value',
                     observed=k, expected=exp, tol=0.5e-5, case=one, coords={'dof': d})
    for bad_arg in (2.0, '3', None):
        st, k = rec.call(k_val95, bad_arg)
        if st == 'ok' or not isinstance(k, TypeError):
            rec.fail('non-integer degrees of freedom are not rejected with TypeError', site='statistics:k_val95:type', observed=k,
                     case={'dofs': []})
    rec.sample({'dofs': '-5..200'})


# --- two threads working at DIFFERENT sites at the same time ----------
from gpmc import threads as _thr
import datetime as _dtm
import numpy as _tnp
import geodepy.constants as _tgc
import geodepy.transform as _tgt
import geodepy.convert as _tgv
import geodepy.geodesy as _tgg
import geodepy.statistics as _tgs
import geodepy.survey as _tsv
import geodepy.angles as _tga
_V1 = [[1e-4, 2e-5, -1e-5], [2e-5, 4e-4, 3e-5], [-1e-5, 3e-5, 9e-4]]
_V2 = [[9e-3, -2e-3, 1e-3], [-2e-3, 5e-3, 2e-3], [1e-3, 2e-3, 7e-3]]
T_CALLS = {
    'rot_alice': lambda: (lambda: _tgs.rotation_matrix(-23.67, 133.88)),
    'rot_m1': lambda: (lambda: _tgs.rotation_matrix(-1.0, 133.88)),
    'rot_m2': lambda: (lambda: _tgs.rotation_matrix(-2.0, 133.88)),
    'c2l_a': lambda: (lambda v=_tnp.array(_V1): _tgs.vcv_cart2local(v, -23.67, 133.88)),
    'c2l_b': lambda: (lambda v=_tnp.array(_V2): _tgs.vcv_cart2local(v, 45.5, -73.6)),
    'l2c_col': lambda: (lambda v=_tnp.array([[1e-4], [2e-4], [3e-4]]): _tgs.vcv_local2cart(v, -33.5, 151.2)),
    'ellipse': lambda: (lambda v=_tnp.array(_V2): _tgs.error_ellipse(v)),
    'relerr': lambda: (lambda: _tgs.relative_error(-23.67, 133.88, _tnp.array(_V1), _tnp.array(_V2), _tnp.array(_V1) * 0.3)),
    'enu2xyz': lambda: (lambda: _tgg.enu2xyz(-35.0, 149.0, 1.0, -2.0, 3.0)),
    'xyz2enu': lambda: (lambda: _tgg.xyz2enu(60.0, 25.0, 1.0, -2.0, 3.0)),
    'k95': lambda: (lambda: _tgs.k_val95(7)),
}
_tg, _te = _thr.make(T_CALLS, ['geodepy/statistics.py', 'geodepy/geodesy.py'], 'statistics:threads',
                     quick=['rot_alice', 'rot_m1', 'rot_m2', 'c2l_a', 'c2l_b', 'relerr'], triple=('c2l_a', 'c2l_b', 'enu2xyz'))


from gpmc import callforms as _cf


from gpmc import interp as _ip


SUBCHECKS = [
    Sub('frame', gen_frame, ev_frame, chunk=2, floor=200, guard=True, envs=3),
    Sub('vcv', gen_vcv, ev_vcv, chunk=1, floor=200, guard=True, envs=3),
    Sub('ellipse', gen_ell, ev_ell, chunk=1, floor=30, guard=True, envs=2),
    Sub('ktable', gen_k, ev_k, chunk=1, floor=200, parallel=False, guard=True),
    Sub('threads', _tg, _te, chunk=1, floor=3, poison=False, fresh=True, timeout=7200),
    Sub('callforms', *_cf.make('C16', 'statistics'), chunk=1, floor=1, guard=True),
    Sub('interpreter', *_ip.make('C16', 'statistics'), chunk=1, floor=5, poison=False),
]


def bounds(tier, seed):
    return {'lats': len(lats(tier, seed)), 'lons': len(lons(tier, seed)), 'vectors': len(VECS), 'positions': POS,
            'psd_matrices': len(psd_lattice(tier)), 'dof_range': [-5, 200], 'depth': 2}
