"""C17 — NTv2 grid files are read faithfully and interpolated only from the right nodes.

Generated .gsb files (gpmc.ntv2gen; every file is re-read by an independent struct reader before use):
  layouts   : single sub-grid, two disjoint, parent + nested child, parent + two children
  shapes    : rows x cols from {3,4,5,8,60}, increments {30,150,600,3600}", both hemispheres, east and west longitudes,
              extents with fractional arc-seconds
  fields    : constant, linear, bi-quadratic, cubic polynomials in (row, col), exactly representable in float32 and
              different in every sub-grid
  queries   : per sub-grid EVERY cell (grids <= 8x8; the outer two rings + a diagonal for 60-wide ones) x
              {node, edge midpoints, centre, (1/4,3/4), (3/4,1/4)}, the closing north/west nodes, and points 1e-9 deg
              inside/outside every extent edge;  methods bilinear and bicubic;  ntv2_2d forward and reverse
Oracle: the polynomial ground truth in exact rationals / the exact bilinear blend of the four enclosing nodes.
"""
import os
from fractions import Fraction as F

import numpy as np

from geodepy.ntv2reader import read_ntv2_file, interpolate_ntv2
from geodepy.transform import ntv2_2d
from gpmc import ntv2gen
from gpmc.core import Sub, HarnessError, SCRATCH

PROPERTY = 'C17'
ASSUMPTIONS = [
    'files come from the generator only (validated by an independent reader at run time)',
    'points exactly on a north or west extent edge are not required to return a value (half-open extents are a legitimate '
    'reading) but any value returned must be the right one',
    'tolerance 1e-6 of the field unit + 1e-6 of the field change across the cell, as stated',
]
D = 64


def q(n):
    return F(n, D)


def fields(kind, variant):
    """four polynomials (one per NTv2 field) of the given kind; variant shifts the coefficients so that every sub-grid
    carries a different field"""
    v = variant
    if kind == 'constant':
        return [{(0, 0): q(64 + 8 * v + k)} for k in range(4)]
    if kind == 'linear':
        return [{(0, 0): q(10 + v + k), (1, 0): q(3 + k + v), (0, 1): q(-(5 + 2 * k + v))} for k in range(4)]
    if kind == 'biquadratic':
        return [{(0, 0): q(7 + k), (1, 0): q(2 + v), (0, 1): q(-3 - k), (1, 1): q(1 + k), (2, 0): q(2 + k), (0, 2): q(-(1 + v)),
                 (2, 1): q(1), (1, 2): q(-1), (2, 2): q(1)} for k in range(4)]
    if kind == 'cubic':
        return [{(0, 0): q(5 + k), (1, 0): q(1 + v), (0, 1): q(2 + k), (2, 0): q(-1), (0, 2): q(1), (1, 1): q(1 + k),
                 (3, 0): q(1), (0, 3): q(-1), (2, 1): q(1)} for k in range(4)]
    if kind == 'zero':
        # a no-data / zero-filled area: every field exactly 0.0 at every node
        return [{(0, 0): q(0)} for k in range(4)]
    if kind == 'zeroline':
        # c_k (r - 3)(c - 2): all four fields vanish together along one node row and one node column
        return [{(1, 1): q(8 + k + v), (1, 0): q(-2 * (8 + k + v)), (0, 1): q(-3 * (8 + k + v)), (0, 0): q(6 * (8 + k + v))} for k in range(4)]
    if kind == 'tiny':
        # shifts below the 6-decimal rounding of the transformed coordinates (1/2^26 arc-seconds and multiples)
        return [{(0, 0): F(1 + k, 2 ** 26), (1, 0): F(1, 2 ** 27)} for k in range(4)]
    raise ValueError(kind)


def sg(name, parent, s_lat, e_long, rows, cols, inc_lat, inc_lon, kind, variant):
    return {'name': name, 'parent': parent, 's_lat': F(s_lat), 'n_lat': F(s_lat) + (rows - 1) * F(inc_lat),
            'e_long': F(e_long), 'w_long': F(e_long) + (cols - 1) * F(inc_lon), 'lat_inc': F(inc_lat), 'long_inc': F(inc_lon),
            'kind': kind, 'variant': variant}


def layouts(tier):
    out = []
    kinds = ['constant', 'linear', 'biquadratic', 'cubic']
    # single sub-grids: shapes x increments x placements
    shapes = [(3, 3), (4, 5), (8, 6), (5, 8)] + ([(3, 60), (60, 4), (8, 8), (60, 60)] if tier == 'quick' else [(3, 60), (60, 4), (60, 60), (8, 8), (5, 3), (9, 4), (4, 9), (60, 8)])
    places = [(-108000, -540000), (162000 + F(1, 2), 270000 + F(1, 4)), (-1800 + F(1, 8), -1800), (0, 0)]   # (s_lat, e_long) arc-seconds
    incs = [30, 150, 600, 3600]
    i = 0
    for (r, c) in shapes:
        for kind in kinds:
            s_lat, e_long = places[i % len(places)]
            inc = incs[i % len(incs)]
            inc2 = incs[(i + 1) % len(incs)] if i % 3 == 0 else inc
            out.append({'id': 'single-%dx%d-%s' % (r, c, kind), 'subs': [sg('A', 'NONE', s_lat, e_long, r, c, inc, inc2, kind, 0)]})
            i += 1
    for kind in ('linear', 'biquadratic'):
        # two disjoint sub-grids
        out.append({'id': 'disjoint-' + kind, 'subs': [sg('A', 'NONE', -108000, -540000, 4, 5, 150, 150, kind, 0),
                                                        sg('B', 'NONE', -90000, -500000, 5, 4, 600, 300, kind, 3)]})
        # parent + nested child (child aligned on parent nodes, 5x finer)
        out.append({'id': 'nested-' + kind, 'subs': [sg('PAR', 'NONE', -108000, -540000, 6, 7, 600, 600, kind, 0),
                                                      sg('CHD', 'PAR', -108000 + 1200, -540000 + 1800, 11, 6, 120, 120, kind, 2)]})
        # parent + two children; the file lists a child before... (order: parent, child1, child2)
        out.append({'id': 'two-children-' + kind, 'subs': [sg('PAR', 'NONE', 162000, 270000, 7, 8, 600, 600, kind, 0),
                                                            sg('CH1', 'PAR', 162000 + 600, 270000 + 600, 7, 5, 150, 150, kind, 1),
                                                            sg('CH2', 'PAR', 162000 + 2400, 270000 + 2400, 4, 9, 150, 150, kind, 2)]})
    # unused padding bytes after the integer records: blank and arbitrary instead of zero
    out.append({'id': 'pad-blank', 'pad': b'    ', 'subs': [sg('A', 'NONE', -108000, -540000, 4, 5, 150, 150, 'linear', 0),
                                                         sg('B', 'NONE', -90000, -500000, 5, 4, 600, 300, 'linear', 3)]})
    out.append({'id': 'pad-junk', 'pad': b'\xde\xad\xbe\xef', 'subs': [sg('PAR', 'NONE', -108000, -540000, 6, 7, 600, 600, 'biquadratic', 0),
                                                                       sg('CHD', 'PAR', -108000 + 1200, -540000 + 1800, 11, 6, 120, 120, 'biquadratic', 2)]})
    # zero-filled sub-grid next to one whose four fields vanish together on a node row / column; shifts far below 1e-6"
    out.append({'id': 'zeros', 'subs': [sg('ZER', 'NONE', 36000 + F(1, 2), 360000 + F(1, 4), 5, 6, 150, 150, 'zero', 0),
                                         sg('LIN', 'NONE', 72000, 400000, 7, 6, 300, 300, 'zeroline', 1)]})
    out.append({'id': 'tiny-shifts', 'subs': [sg('TNY', 'NONE', -108000, -540000, 4, 5, 150, 150, 'tiny', 0)]})
    # non-finite "no data" nodes (NaN, +inf, -inf) in a few nodes of a grid: every cell that does not touch them is unaffected
    out.append({'id': 'nodata-nodes', 'subs': [dict(sg('PAR', 'NONE', -108000, -540000, 9, 10, 600, 600, 'linear', 0),
                                                    poison=[(0, 9, float('nan')), (4, 0, float('inf')), (8, 5, float('-inf')), (4, 9, float('nan'))]),
                                               dict(sg('CHD', 'PAR', -108000 + 1200, -540000 + 1800, 11, 11, 120, 120, 'linear', 2),
                                                    poison=[(10, 10, float('nan')), (5, 0, float('nan'))])]})
    # PARENT records that do not mirror the geometry: a grid nested three deep whose two inner grids are both declared children of
    # the outermost; a dense grid lying inside a coarse one with BOTH declared top-level.  The finest containing sub-grid answers.
    out.append({'id': 'flat-hierarchy', 'subs': [sg('TOP', 'NONE', -108000, -540000, 6, 7, 600, 600, 'linear', 0),
                                                  sg('MID', 'TOP', -108000 + 600, -540000 + 600, 11, 11, 120, 120, 'linear', 1),
                                                  sg('FINE', 'TOP', -108000 + 840, -540000 + 960, 9, 7, 30, 30, 'linear', 2)]})
    out.append({'id': 'two-top-level-overlap', 'subs': [sg('COARSE', 'NONE', 162000, 270000, 7, 8, 600, 600, 'biquadratic', 0),
                                                         sg('DENSE', 'NONE', 162000 + 1200, 270000 + 600, 9, 9, 150, 150, 'biquadratic', 3)]})
    # extents in decimal thousandths of an arc-second (not binary fractions): (n - s) / inc is not an integer in floating point
    out.append({'id': 'decimal-extents', 'subs': [sg('DEC', 'NONE', F(-73484658, 1000), F(-412345679, 1000), 22, 17, 600, 450, 'linear', 0),
                                                   sg('DC2', 'NONE', F(-60000123, 1000), F(-400000987, 1000), 8, 23, 150, 300, 'biquadratic', 1),
                                                   sg('DC3', 'NONE', F(44000333, 1000), F(280000111, 1000), 13, 9, 90, 30, 'linear', 2)]})
    out.append({'id': 'decimal-extents-wide', 'subs': [sg('WID', 'NONE', F(-100000374, 1000), F(251706622, 1000), 6, 52, 900, 900, 'linear', 0),
                                                        sg('NXT', 'NONE', F(20000001, 1000), F(-300000001, 1000), 21, 37, 300, 900, 'biquadratic', 1)]})
    # the child sub-grid listed BEFORE its parent in the file
    out.append({'id': 'child-first', 'subs': [sg('CHD', 'PAR', -108000 + 1200, -540000 + 1800, 11, 6, 120, 120, 'biquadratic', 2),
                                               sg('PAR', 'NONE', -108000, -540000, 6, 7, 600, 600, 'biquadratic', 0)]})
    # three levels of nesting (grandchild) next to a disjoint grid in the other hemisphere
    for kind in ('linear', 'biquadratic'):
        out.append({'id': 'three-level-' + kind, 'subs': [sg('TOP', 'NONE', -108000, -540000, 6, 7, 600, 600, kind, 0),
                                                           sg('MID', 'TOP', -108000 + 600, -540000 + 600, 11, 11, 120, 120, kind, 1),
                                                           sg('FINE', 'MID', -108000 + 840, -540000 + 960, 9, 7, 30, 30, kind, 2),
                                                           sg('FAR', 'NONE', 162000, 270000, 4, 4, 300, 300, kind, 3)]})
    # sub-grids that END AT THE 180-DEGREE MERIDIAN (one on each side): the shifted longitude of a point next to it lies beyond
    # +-180 degrees - the transformation adds / subtracts the shift, nothing else
    out.append({'id': 'antimeridian', 'subs': [sg('E180', 'NONE', -72000, -648000, 5, 6, 600, 600, 'linear', 0),
                                                sg('W180', 'NONE', -72000, 648000 - 5 * 600, 5, 6, 600, 600, 'linear', 1)]})
    # the three nested levels in EVERY file order (a file need not list a parent before its children, nor coarse before fine)
    import itertools
    lv = {'T': sg('TOP', 'NONE', -108000, -540000, 6, 7, 600, 600, 'linear', 0), 'M': sg('MID', 'TOP', -108000 + 600, -540000 + 600, 11, 11, 120, 120, 'linear', 1),
          'F': sg('FINE', 'MID', -108000 + 840, -540000 + 960, 9, 7, 30, 30, 'linear', 2)}
    for perm in itertools.permutations('TMF'):
        if perm != ('T', 'M', 'F'):
            out.append({'id': 'three-level-order-' + ''.join(perm), 'subs': [dict(lv[c]) for c in perm]})
    return out


def gen(tier, seed):
    for lay in layouts(tier):
        for method in ('bilinear', 'bicubic'):
            yield {'layout': lay['id'], 'method': method}


_LAY = {}


def layout_by_id(lid, tier='thorough'):
    if not _LAY:
        for t in ('quick', 'thorough'):
            for l in layouts(t):
                _LAY[l['id']] = l
    return _LAY[lid]


HEADERS = [
    {'system_f': 'GDA94', 'system_t': 'GDA2020', 'version': 'TESTv1', 'axes': (6378137.0, 6356752.314, 6378137.0, 6356752.314)},
    # the axes as doubles carry them (full precision), two different ellipsoids, other system names / version texts
    {'system_f': 'AGD66', 'system_t': 'GDA94', 'version': '1.0.0.0', 'axes': (6378160.0, 6356774.719195306, 6378137.0, 6356752.314140356)},
    {'system_f': 'WGS84', 'system_t': 'GRS80', 'version': 'v2 b', 'axes': (6378137.0, 6356752.314245179, 6378137.0, 6356752.314140356)},
    {'system_f': 'NAD27', 'system_t': 'NAD83', 'version': 'NTv2.0', 'axes': (6378206.4, 6356583.8, 6378137.0, 6356752.31414)},
]


def header_of(lay):
    """every layout carries one of the header variants (by position in the layout list: all variants meet all layout families)"""
    return HEADERS[sum(map(ord, lay['id'])) % len(HEADERS)]


def materialise(lay, tag):
    subs = []
    for s in lay['subs']:
        d = dict(s)
        # the file holds doubles: the extents a reader sees are the doubles nearest to the decimal values (exact for binary fractions)
        for k in ('s_lat', 'n_lat', 'e_long', 'w_long', 'lat_inc', 'long_inc'):
            d[k] = F(float(s[k]))
        d['fields'] = fields(s['kind'], s['variant'])
        subs.append(d)
    # deliberately the SAME path for every file a worker process handles: a cache keyed on the file name that survives a
    # replaced file shows up as values of the previous file
    path = os.path.join(SCRATCH, 'c17_%d_%s.gsb' % (os.getpid(), tag))
    hd = header_of(lay)
    arrays = ntv2gen.write_gsb(path, subs, pad=lay.get('pad', b'\x00' * 4), system_f=hd['system_f'], system_t=hd['system_t'], version=hd['version'],
                               axes=hd['axes'])
    chk = ntv2gen.read_gsb_independent(path)
    if chk['num_file'] != len(subs) or chk['end'] != b'END':
        raise HarnessError('generated NTv2 file failed the independent reader')
    for s, a, c in zip(subs, arrays, chk['sub']):
        if c['name'] != s['name'] or c['count'] != a.shape[0] * a.shape[1] or not np.array_equal(c['values'], a.reshape(-1, 4), equal_nan=True):
            raise HarnessError('generated NTv2 file does not reproduce the generator arrays')
    return path, subs, arrays


def cells_of(nrows, ncols):
    """cells to visit: all for small grids; the two outer rings and a diagonal for large ones"""
    if nrows <= 9 and ncols <= 9:
        return [(r, c) for r in range(nrows - 1) for c in range(ncols - 1)]
    out = set()
    for r in range(nrows - 1):
        for c in range(ncols - 1):
            if r < 2 or c < 2 or r >= nrows - 3 or c >= ncols - 3 or (r * 7) % (ncols - 1) == c % (ncols - 1) or r == c:
                out.add((r, c))
    return sorted(out)


FRACS = [(F(0), F(0)), (F(1, 2), F(0)), (F(0), F(1, 2)), (F(1, 2), F(1, 2)), (F(1, 4), F(3, 4)), (F(3, 4), F(1, 4))]


def contains(s, lat, lon, closed=False):
    if closed:
        return s['s_lat'] <= lat <= s['n_lat'] and s['e_long'] <= lon <= s['w_long']
    return s['s_lat'] <= lat < s['n_lat'] and s['e_long'] <= lon < s['w_long']


def truth(s, arr, lat, lon, method):
    """expected four values at (lat, lon) arc-seconds inside sub-grid s, and the change across the cell"""
    nrows, ncols = arr.shape[:2]
    fr = (lat - s['s_lat']) / s['lat_inc']
    fc = (lon - s['e_long']) / s['long_inc']
    r0 = min(int(fr), nrows - 2)
    c0 = min(int(fc), ncols - 2)
    y, x = fr - r0, fc - c0
    vals, spans = [], []
    exact_poly = (s['kind'] in ('constant', 'linear')) or (method == 'bicubic' and s['kind'] == 'biquadratic')
    at_node = (y in (0, 1)) and (x in (0, 1))
    # non-finite no-data nodes: a cell whose own nodes (bilinear: 4; bicubic: the 4 x 4 around it) are all finite must be answered
    # from them alone; cells that touch a non-finite node are not judged
    rr0, rr1 = (r0, r0 + 2) if method == 'bilinear' else (max(r0 - 1, 0), min(r0 + 3, nrows))
    cc0, cc1 = (c0, c0 + 2) if method == 'bilinear' else (max(c0 - 1, 0), min(c0 + 3, ncols))
    if not np.all(np.isfinite(arr[rr0:rr1, cc0:cc1, :])):
        return [None] * 4, [0.0] * 4, (r0, c0)
    for k in range(4):
        n1, n2, n3, n4 = (F(float(arr[r0, c0, k])), F(float(arr[r0, c0 + 1, k])), F(float(arr[r0 + 1, c0, k])),
                          F(float(arr[r0 + 1, c0 + 1, k])))
        spans.append(float(max(n1, n2, n3, n4) - min(n1, n2, n3, n4)))
        if exact_poly:
            vals.append(float(ntv2gen.poly_value(s['fields'][k], fr, fc)))
        elif method == 'bilinear' or at_node:
            vals.append(float(n1 + (n2 - n1) * x + (n3 - n1) * y + (n1 + n4 - n2 - n3) * x * y))
        else:
            vals.append(None)          # bicubic on a cubic field away from the nodes: no exactness claim
    return vals, spans, (r0, c0)


def ev(case, rec):
    lay = layout_by_id(case['layout'])
    method = case['method']
    path, subs, arrays = materialise(lay, 'x')
    try:
        st, grid = rec.call(read_ntv2_file, path)
        if st != 'ok':
            rec.fail('read_ntv2_file raised on a well-formed file', site='ntv2reader:read_ntv2_file', observed=grid)
            return
        # ---- metadata
        bad_meta = []
        hd = header_of(layout_by_id(case['layout']))
        got_h = [grid.num_file, grid.gs_type, grid.system_f, grid.system_t, grid.num_orec, grid.num_srec, grid.version, grid.major_f, grid.minor_f, grid.major_t, grid.minor_t]
        exp_h = [len(subs), 'SECONDS', hd['system_f'], hd['system_t'], 11, 11, hd['version']] + list(hd['axes'])
        if got_h != exp_h:
            bad_meta.append(('header', got_h, exp_h))
        if list(grid.subgrids) != [s['name'] for s in subs]:
            bad_meta.append(('names', list(grid.subgrids)))
        for s, a in zip(subs, arrays):
            g = grid.subgrids.get(s['name'])
            if g is None:
                continue
            exp = [float(s['s_lat']), float(s['n_lat']), float(s['e_long']), float(s['w_long']), float(s['lat_inc']), float(s['long_inc']),
                   a.shape[0] * a.shape[1], s['parent'], s['name'], '01/01/2020', '29/02/2020']
            got = [g.s_lat, g.n_lat, g.e_long, g.w_long, g.lat_inc, g.long_inc, g.gs_count, g.parent, g.sub_name, g.created, g.updated]
            if got != exp:
                bad_meta.append((s['name'], got, exp))
        rec.nontriv(('meta', case['layout'], method))
        if bad_meta:
            rec.fail('header / sub-grid metadata do not read back as written', site='ntv2reader:read_ntv2_file:metadata', observed=bad_meta)
        # ---- the same file named in another legal way (pathlib.Path, bytes, relative, './' inside) reads the same and answers the same
        import pathlib
        s0 = subs[0]
        qlat = float((s0['s_lat'] + s0['lat_inc'] * F(5, 4)) / 3600)
        qlon = float(-(s0['e_long'] + s0['long_inc'] * F(3, 4)) / 3600)
        base_q = rec.call(interpolate_ntv2, grid, qlat, qlon, method)
        k = (len(case['layout']) + len(method)) % 4
        pform = [pathlib.Path(path), os.fsencode(path), os.path.relpath(path), os.path.join(os.path.dirname(path), '.', os.path.basename(path))][k]
        stp, g2 = rec.call(read_ntv2_file, pform)
        if stp != 'ok':
            rec.fail('read_ntv2_file raised when the file is named by a %s' % type(pform).__name__, site='ntv2reader:read_ntv2_file:path-form',
                     observed=g2, coords={'form': type(pform).__name__})
        else:
            q2 = rec.call(interpolate_ntv2, g2, qlat, qlon, method)
            if list(g2.subgrids) != list(grid.subgrids) or q2 != base_q:
                rec.fail('the grid read through a %s path answers differently' % type(pform).__name__, site='ntv2reader:read_ntv2_file:path-form',
                         observed=q2, expected=base_q, coords={'form': type(pform).__name__})
        # ---- queries
        for si, (s, a) in enumerate(zip(subs, arrays)):
            nrows, ncols = a.shape[:2]
            pts = []
            for (r, c) in cells_of(nrows, ncols):
                for fy, fx in FRACS:
                    pts.append((s['s_lat'] + (r + fy) * s['lat_inc'], s['e_long'] + (c + fx) * s['long_inc'], 'cell'))
            # closing nodes on the north and west edges (closed extent)
            for c in range(ncols):
                pts.append((s['n_lat'], s['e_long'] + c * s['long_inc'], 'edge'))
            for r in range(nrows):
                pts.append((s['s_lat'] + r * s['lat_inc'], s['w_long'], 'edge'))
            eps = F(36, 10 ** 7)     # 1e-9 degree in arc-seconds
            midlat, midlon = (s['s_lat'] + s['n_lat']) / 2, (s['e_long'] + s['w_long']) / 2
            for sgn, tag in ((1, 'inside'), (-1, 'outside')):
                pts += [(s['s_lat'] + sgn * eps, midlon, tag), (s['n_lat'] - sgn * eps, midlon, tag),
                        (midlat, s['e_long'] + sgn * eps, tag), (midlat, s['w_long'] - sgn * eps, tag),
                        (s['s_lat'] + sgn * eps, s['e_long'] + sgn * eps, tag), (s['n_lat'] - sgn * eps, s['w_long'] - sgn * eps, tag)]
            for lat, lon, tag in pts:
                lat_deg, lon_deg = float(lat / 3600), float(-lon / 3600)
                # what the float arguments denote (the library multiplies by 3600 again)
                latq, lonq = F(lat_deg * 3600.0), F(lon_deg * -3600.0)
                owners = [j for j, t in enumerate(subs) if contains(t, latq, lonq)]
                owners_closed = [j for j, t in enumerate(subs) if contains(t, latq, lonq, closed=True)]
                one = {'layout': case['layout'], 'method': method, 'point': [lat_deg, lon_deg], 'tag': tag, 'sub': s['name']}
                st, r = rec.call(interpolate_ntv2, grid, lat_deg, lon_deg, method)
                co = {'layout': case['layout'], 'method': method, 'tag': tag, 'sub': s['name']}
                if not owners_closed:
                    if st != 'ok' or tuple(r) != (None, None, None, None):
                        rec.fail('a value is returned outside every sub-grid', site='ntv2reader:interpolate_ntv2:outside', observed=r,
                                 case=one, coords=co)
                    st2, r2 = rec.call(ntv2_2d, grid, lat_deg, lon_deg, True, method)
                    if st2 == 'ok' or not isinstance(r2, ValueError):
                        rec.fail('ntv2_2d does not raise ValueError outside every sub-grid', site='transform:ntv2_2d:outside', observed=r2,
                                 case=one, coords=co)
                    rec.outcome('outside-ok')
                    continue
                if st != 'ok':
                    if owners:
                        rec.fail('interpolation raised for a position inside a sub-grid', site='ntv2reader:interpolate_ntv2:%s:raise' % method,
                                 observed=r, case=one, coords=dict(co, ring=ring_of(subs, arrays, owners, latq, lonq)))
                    continue
                if tuple(r) == (None, None, None, None):
                    if owners:
                        rec.fail('no value returned for a position inside a sub-grid', site='ntv2reader:interpolate_ntv2:none', observed=r,
                                 case=one, coords=co)
                    else:
                        rec.outcome('closed-edge-none')
                    continue
                # candidates: the finest sub-grid among the half-open owners; on closed edges any closed owner is accepted
                if owners:
                    fin = min(owners, key=lambda j: subs[j]['lat_inc'])
                    cands = [fin]
                else:
                    cands = owners_closed
                rec.nontriv((case['layout'], method, lat_deg, lon_deg))
                rec.state((case['layout'], method) + tuple(float(v).hex() for v in r))
                ok_any, detail = False, None
                for j in cands:
                    vals, spans, cell = truth(subs[j], arrays[j], latq, lonq, method)
                    good = True
                    for k in range(4):
                        if vals[k] is None:
                            continue
                        tol = 1e-6 + 1e-6 * spans[k] + 1e-9 * abs(vals[k])
                        if not (abs(r[k] - vals[k]) <= tol):
                            good = False
                            detail = {'field': k, 'observed': r[k], 'expected': vals[k], 'tol': tol, 'sub': subs[j]['name'], 'cell': cell}
                    if good:
                        ok_any = True
                        break
                if not ok_any:
                    rec.fail('%s interpolation does not return the value defined by the sub-grid\'s own nodes around the position'
                             % method, site='ntv2reader:interpolate_ntv2:%s:value' % method, observed=list(r), expected=detail, case=one,
                             coords=dict(co, kind=subs[cands[0]]['kind'], ring=ring_of(subs, arrays, cands, latq, lonq)))
                    rec.outcome('value-bad')
                else:
                    rec.outcome('value-ok')
                    # the 2-D transformation: + latitude shift, - positive-west longitude shift; reverse the opposite
                    if tag == 'cell':
                        # the direction flag in every form a caller holds it: the bool constants, numpy booleans (an element of a
                        # boolean array / DataFrame column) and 1 / 0
                        for fwd in (True, False, np.True_, np.False_, np.bool_(True), 1, 0):
                            st3, t = rec.call(ntv2_2d, grid, lat_deg, lon_deg, fwd, method)
                            sg_ = 1.0 if fwd else -1.0
                            exp = (lat_deg + sg_ * r[0] / 3600, lon_deg - sg_ * r[1] / 3600)
                            if st3 != 'ok' or abs(t[0] - exp[0]) > 1e-12 or abs(t[1] - exp[1]) > 1e-12:
                                rec.fail('ntv2_2d does not add the latitude shift and subtract the positive-west longitude shift '
                                         '(forward) / the opposite (reverse)', site='transform:ntv2_2d:sign', observed=t, expected=exp,
                                         case=one, coords=dict(co, forward=fwd))
        rec.sample({'layout': case['layout'], 'method': method, 'subgrids': [[s['name'], ] + list(a.shape[:2]) for s, a in zip(subs, arrays)]})
    finally:
        try:
            os.remove(path)
        except OSError:
            pass


def ring_of(subs, arrays, owners, lat, lon):
    """0 if the enclosing cell touches the border of its sub-grid (outer ring), else 1"""
    j = min(owners, key=lambda j: subs[j]['lat_inc'])
    s, a = subs[j], arrays[j]
    nrows, ncols = a.shape[:2]
    r = min(int((lat - s['s_lat']) / s['lat_inc']), nrows - 2)
    c = min(int((lon - s['e_long']) / s['long_inc']), ncols - 2)
    return 0 if (r == 0 or c == 0 or r == nrows - 2 or c == ncols - 2) else 1


def ev_single(case, rec):
    if 'point' in case:
        # replay of one query
        lay = layout_by_id(case['layout'])
        path, subs, arrays = materialise(lay, 'r')
        try:
            grid = read_ntv2_file(path)
            lat_deg, lon_deg = case['point']
            latq, lonq = F(lat_deg * 3600.0), F(lon_deg * -3600.0)
            owners = [j for j, t in enumerate(subs) if contains(t, latq, lonq)] or [j for j, t in enumerate(subs) if contains(t, latq, lonq, True)]
            try:
                r = interpolate_ntv2(grid, lat_deg, lon_deg, case['method'])
            except Exception as e:
                rec.fail('interpolation raised', site='ntv2reader:interpolate_ntv2:%s:raise' % case['method'], observed=e)
                return
            if owners and r[0] is not None:
                j = min(owners, key=lambda j: subs[j]['lat_inc'])
                vals, spans, cell = truth(subs[j], arrays[j], latq, lonq, case['method'])
                for k in range(4):
                    if vals[k] is not None and abs(r[k] - vals[k]) > 1e-6 + 1e-6 * spans[k] + 1e-9 * abs(vals[k]):
                        rec.fail('interpolated value differs from the ground truth', site='ntv2reader:interpolate_ntv2:%s:value' % case['method'],
                                 observed=list(r), expected=vals)
                        break
        finally:
            os.remove(path)
        return
    ev(case, rec)


# --- two threads interpolating DIFFERENT positions on the SAME grid object (and on two grid objects of one file) -----------
from gpmc import threads as _thr
_TGRID = {}


def _tgrid(k='a'):
    if k not in _TGRID:
        if 'path' not in _TGRID:
            _TGRID['path'] = materialise(layout_by_id('nested-biquadratic'), 'thr')[0]
        _TGRID[k] = read_ntv2_file(_TGRID['path'])
    return _TGRID[k]


T_CALLS = {
    'child_bicubic': lambda: (lambda g=_tgrid(): interpolate_ntv2(g, -29.5, 149.4, 'bicubic')),
    'child_bilinear': lambda: (lambda g=_tgrid(): interpolate_ntv2(g, -29.45, 149.45, 'bilinear')),
    'parent_bilinear': lambda: (lambda g=_tgrid(): interpolate_ntv2(g, -29.9, 149.9, 'bilinear')),
    'parent_bicubic_edge': lambda: (lambda g=_tgrid(): interpolate_ntv2(g, -29.17, 149.02, 'bicubic')),
    'outside': lambda: (lambda g=_tgrid(): interpolate_ntv2(g, -10.0, 100.0, 'bilinear')),
    'ntv2_2d_rev': lambda: (lambda g=_tgrid(): ntv2_2d(g, -29.6, 149.35, False, 'bicubic')),
    'other_object': lambda: (lambda g=_tgrid('b'): interpolate_ntv2(g, -29.55, 149.5, 'bicubic')),
    'read_file': lambda: (lambda: sorted(read_ntv2_file(_tgrid() and _TGRID['path']).subgrids)),
}
_tg, _te = _thr.make(T_CALLS, ['geodepy/ntv2reader.py', 'geodepy/transform.py'], 'ntv2reader:threads',
                     quick=['child_bicubic', 'parent_bilinear', 'other_object'],
                     triple=('child_bicubic', 'parent_bilinear', 'read_file'), parts=16)


from gpmc import interp as _ip


SUBCHECKS = [Sub('files', gen, ev_single, chunk=1, floor=1000, guard=True, envs=6), Sub('threads', _tg, _te, chunk=1, floor=3, poison=False, fresh=True, timeout=7200), Sub('interpreter', *_ip.make('C17', 'ntv2reader'), chunk=1, floor=5, poison=False)]


def bounds(tier, seed):
    ls = layouts(tier)
    return {'files': len(ls), 'methods': ['bilinear', 'bicubic'], 'layouts': [l['id'] for l in ls], 'fractions': [[float(a), float(b)] for a, b in FRACS]}
