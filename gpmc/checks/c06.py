"""C06 — 7-parameter transformation equals its similarity formula and is reversible.

  formula    : conform7 on {every shipped Transformation constant U parameter lattice (2^7 corners of
               |t|=1000 m, |s|=100 ppm, |r|=59.999", 14 axis points, zero)} x Cartesian lattice (all octants,
               |x| up to 5e7) against the exactly evaluated formula (1 um); depth 2: the negated set brings the
               point back within the formula's second-order terms
  covariance : vcv in {None} U PSD lattice (incl. rank 0/1/2, condition 1e8, rotated) x sets with/without
               uncertainties: result None / 3x3 symmetric PSD equal to the oracle's J Q J^T
"""
import copy
import math

import mpmath as mp
import numpy as np

import geodepy.constants as gc
from geodepy.transform import conform7
from gpmc import cfg
from gpmc import oracle_misc as om
from gpmc.core import Sub, HarnessError

PROPERTY = 'C06'
ASSUMPTIONS = [
    'formula evaluated in 40-digit arithmetic from the decimal strings of the parameters (repr of the stored floats)',
    'second-order bound: (s^2 + theta^2)|x| + (|s| + theta + |s|theta)|t| + 1e-7 m, theta = norm of the rotation vector',
    'the stated numeric limits for shipped sets (0.01 mm; 2 mm for AGD66/84) are asserted for points within 7e6 m of the '
    'geocentre (on/near the Earth), where they follow from the bound; farther out only the bound itself is asserted',
    'covariance compared with J Q J^T from the analytic Jacobian of the oracle, itself validated against high-precision '
    'central differences at run time',
]
FIELDS = ['tx', 'ty', 'tz', 'sc', 'rx', 'ry', 'rz']
_SC = {}


def prepare(tier, seed):
    sc = om.helmert_selfcheck()
    _SC.update(sc)
    if not sc['ok']:
        raise HarnessError('Helmert oracle self-check failed: %r' % sc)


def evidence_extra():
    return {'oracle_selfcheck': dict(_SC)}


def catalogue():
    return {n: v for n, v in vars(gc).items() if type(v) is gc.Transformation}


def lattice_sets():
    out = {}
    T, S, R = 1000.0, 100.0, 59.999
    k = 0
    for bits in range(128):
        sg = [1 if bits >> i & 1 else -1 for i in range(7)]
        out['corner%03d' % bits] = [sg[0] * T, sg[1] * T, sg[2] * T, sg[3] * S, sg[4] * R, sg[5] * R, sg[6] * R]
    mags = [T, T, T, S, R, R, R]
    for i in range(7):
        for s in (1, -1):
            v = [0.0] * 7
            v[i] = s * mags[i]
            out['axis%d%s' % (i, 'p' if s > 0 else 'm')] = v
    out['zero'] = [0.0] * 7
    out['small'] = [0.001, -0.002, 0.003, 1e-4, 1e-5, -2e-5, 3e-5]
    # parameters in other legal numeric forms: Python ints, numpy 64-bit integers and floats (32-bit numpy scalars are NOT
    # used: numpy's own promotion rules then compute in single precision, which is not the library's doing)
    out['ints'] = [100, -50, 25, 3, 1, -2, 3]
    out['npforms'] = [np.int64(7), np.float64(-2.5), np.int64(4), np.float64(1.5), np.float64(0.5), np.int64(-1), np.float64(0.25)]
    return out


def get_trans(spec):
    """spec: ['const', name] | ['neg', name] | ['lat', name]"""
    kind, name = spec
    if kind == 'const':
        return catalogue()[name]
    if kind == 'neg':
        return -catalogue()[name]
    v = lattice_sets()[name]
    if kind == 'assigned':
        # built with other values, then every public parameter assigned
        t = gc.Transformation('A', 'B', 0, *lattice_sets()['small'])
        for f, x in zip(FIELDS, v):
            setattr(t, f, x)
        return t
    if kind in ('copyadj', 'deepadj'):
        # a (deep) copy of a shipped set adjusted by the caller
        t = (copy.copy if kind == 'copyadj' else copy.deepcopy)(gc.gda94_to_gda2020 if name[-1] in '02468' else gc.itrf2014_to_itrf2008)
        for f, x in zip(FIELDS, v):
            setattr(t, f, x)
        return t
    if kind.startswith('names:'):
        # the datum labels are free text and play no part in the arithmetic: equal labels, empty labels, labels of shipped sets
        a, b = kind[6:].split('>')
        return gc.Transformation(a, b, 0, *v)
    return gc.Transformation('A', 'B', 0, *v)


NAME_KINDS = ['names:ITRF2014>ITRF2014', 'names:>', 'names:GDA94>GDA94', 'names:GDA2020>GDA94', 'names:B>A', 'names:same>same']


def par_of(t):
    return {f: om.dec_str(getattr(t, f)) for f in FIELDS}


# parameters of the shipped sets as they are at import time, before any library call (forked workers inherit them): the
# oracle never re-reads a live object that a call may have modified
PRISTINE = {n: {f: om.dec_str(getattr(v, f)) for f in FIELDS + ['d_' + f for f in FIELDS]} for n, v in catalogue().items()}


def pristine_par(spec, t):
    kind, name = spec
    if kind == 'const':
        return {f: PRISTINE[name][f] for f in FIELDS}
    if kind == 'neg':
        return {f: -PRISTINE[name][f] for f in FIELDS}
    return par_of(t)


def unchanged(rec, spec, one, co):
    """the shipped constant still carries its import-time parameters"""
    if spec[0] in ('const', 'neg'):
        v = catalogue()[spec[1]]
        now = {f: om.dec_str(getattr(v, f)) for f in FIELDS + ['d_' + f for f in FIELDS]}
        if now != PRISTINE[spec[1]]:
            rec.fail('a shipped parameter set was modified by the call', site='transform:constant-modified', observed={k: float(x) for k, x in now.items()},
                     case=one, coords=co)


def points(tier, seed):
    mags = [0.0, 1e-3, 1.0, 6.4e6 / math.sqrt(3), 1e7, 5e7]
    pts = []
    for sx in (1, -1):
        for sy in (1, -1):
            for sz in (1, -1):
                for m in mags[3:]:
                    pts.append((sx * m, sy * m, sz * m))
    # points on axes / planes, small magnitudes, a typical Australian point
    for m in mags:
        pts += [(m, 0.0, 0.0), (0.0, -m, 0.0), (0.0, 0.0, m), (m, -m, 0.0), (0.0, m, -m)]
    pts += [(-4052051.7643, 4212836.2017, -2545106.0245), (5e7, -1.0, 1e-3)]
    if True:
        ph = (seed * 0.6180339887 + 0.37) % 1.0
        for i in range(40 if tier == 'quick' else 160):
            a1, a2 = 2 * math.pi * ((i + ph) / 40.0), math.pi * (((i * 7 + ph) % 40) / 40.0 - 0.5) * (1.0 if i < 40 else 0.97 ** (i // 40))
            r = [6.37e6, 2e7, 4e7][i % 3]
            pts.append((r * math.cos(a2) * math.cos(a1), r * math.cos(a2) * math.sin(a1), r * math.sin(a2)))
    seen, out = set(), []
    for p in pts:
        if p not in seen:
            seen.add(p)
            out.append(list(p))
    return out


def gen_formula(tier, seed):
    pts = points(tier, seed)
    for name in sorted(catalogue()):
        yield {'trans': ['const', name], 'pts': pts}
    for name in sorted(catalogue()):
        if name in ('gda94_to_gda2020', 'agd66_to_gda94', 'itrf2014_to_itrf2008', 'itrf2008_to_gda94'):
            yield {'trans': ['neg', name], 'pts': pts}
    for name in sorted(lattice_sets()):
        yield {'trans': ['lat', name], 'pts': pts}
    # parameter sets that reached their values by assignment, or as adjusted copies of shipped sets
    for i, name in enumerate(sorted(lattice_sets())):
        if i % 6 == 0 or not name.startswith('corner'):
            yield {'trans': [('assigned', 'copyadj', 'deepadj')[i % 3], name], 'pts': pts[::3]}
    for i, name in enumerate(('small', 'ints', 'corner085', 'axis0p', 'axis4m', 'axis6p', 'zero')):
        if name in lattice_sets():
            for j, nk in enumerate(NAME_KINDS):
                yield {'trans': [nk, name], 'pts': pts[(i + j) % 5::5]}


def ev_formula(case, rec):
    t = get_trans(case['trans'])
    par = pristine_par(case['trans'], t)
    shipped = case['trans'][0] in ('const', 'neg')
    agd = shipped and 'agd' in case['trans'][1]
    with mp.workdps(30):
        s = abs(float(par['sc'])) * 1e-6
        theta = math.sqrt(sum(float(par[k]) ** 2 for k in ('rx', 'ry', 'rz'))) * math.pi / 648000
        tn = math.sqrt(sum(float(par[k]) ** 2 for k in ('tx', 'ty', 'tz')))
    for pt in case['pts']:
        one = dict(case, pts=[pt])
        st, r = rec.call(conform7, pt[0], pt[1], pt[2], t)
        co = {'trans': case['trans'][1], 'kind': case['trans'][0]}
        if st != 'ok':
            rec.fail('conform7 raised', site='transform:conform7', observed=r, case=one, coords=co)
            continue
        rec.nontriv((tuple(case['trans']), tuple(pt)))
        rec.state(('c7', case['trans'][1]) + tuple(float(v).hex() for v in r[:3]))
        # the same point as numpy scalars and (where integral) as ints must give the identical answer
        forms = [tuple(np.float64(v) for v in pt)]
        if all(float(v).is_integer() for v in pt):
            forms.append(tuple(int(v) for v in pt))
        for fpt in forms:
            stf, rf = rec.call(conform7, fpt[0], fpt[1], fpt[2], t)
            if stf != 'ok' or tuple(float(v) for v in rf[:3]) != tuple(float(v) for v in r[:3]):
                rec.fail('conform7 gives a different result for the same point given as %s' % type(fpt[0]).__name__,
                         site='transform:conform7:input-form', observed=rf, expected=list(r[:3]), case=one, coords=co)
        if r[3] is not None:
            rec.fail('a covariance was returned although none was supplied', site='transform:conform7:vcv-none',
                     observed=r[3], case=one, coords=co)
        exp = om.helmert_mp(pt, par)
        err = float(om.dist3(r[:3], exp))
        rec.dev('formula_m', err, one)
        if not (err <= 1e-6):
            rec.fail('conform7 differs from t + (1+s) R x by more than 1 micrometre', site='transform:conform7:value',
                     observed=list(r[:3]), expected=[float(v) for v in exp], tol=1e-6, case=one, coords=dict(co, err=err))
            rec.outcome('formula-bad')
            continue
        # depth 2: apply the negated set
        st, back = rec.call(conform7, r[0], r[1], r[2], -t)
        if st != 'ok':
            rec.fail('conform7 raised with the negated set', site='transform:conform7:neg', observed=back, case=one, coords=co)
            continue
        xn = math.sqrt(sum(v * v for v in pt))
        berr = math.sqrt(sum((a - b) ** 2 for a, b in zip(back[:3], pt)))
        bound = (s * s + theta * theta) * (xn + tn) + (s + theta + s * theta) * tn + 1e-7
        rec.dev('back_over_bound', berr / bound, one)
        bad = False
        if not (berr <= bound):
            bad = True
            rec.fail('set followed by its negation does not return the start point within the second-order terms',
                     site='transform:conform7:roundtrip', observed=list(back[:3]), expected=pt, tol=bound, case=one,
                     coords=dict(co, err=berr))
        if shipped and xn <= 7e6:
            lim = 2e-3 if agd else 1e-5
            if not (berr <= lim):
                bad = True
                rec.fail('shipped set and its negation do not close within the stated limit', site='transform:conform7:roundtrip-limit',
                         observed=berr, tol=lim, case=one, coords=dict(co, err=berr))
        rec.outcome('bad' if bad else 'ok')
    unchanged(rec, case['trans'], dict(case, pts=case['pts'][:1]), {'trans': case['trans'][1]})
    rec.sample({'trans': case['trans'], 'pt': case['pts'][0]})


# ------------------------------------------------------------------------------------------------
ROTS = None


def rotations():
    def rx(a):
        c, s = math.cos(a), math.sin(a)
        return np.array([[1, 0, 0], [0, c, -s], [0, s, c]])

    def rz(a):
        c, s = math.cos(a), math.sin(a)
        return np.array([[c, -s, 0], [s, c, 0], [0, 0, 1]])

    def ry(a):
        c, s = math.cos(a), math.sin(a)
        return np.array([[c, 0, s], [0, 1, 0], [-s, 0, c]])
    h = math.pi / 2
    return [np.eye(3), rx(h), ry(h), rz(h), rz(0.3) @ rx(1.1), ry(2.0) @ rz(-0.7), rx(0.5) @ ry(0.6) @ rz(0.7)]


def psd_lattice(tier):
    eig = [0.0, 1e-8, 1e-4, 1.0, 1.0e4, 1.0e7]      # up to (3 km)^2: rank-deficient AND large (eigenvalue rounding noise is relative)
    out = []
    trip = [(a, b, c) for a in eig for b in eig for c in eig if a >= b >= c]
    for k, (a, b, c) in enumerate(trip):
        for ri, R in enumerate(rotations()):
            if tier == 'quick' and (k + ri) % 3:
                continue
            m = R @ np.diag([a, b, c]) @ R.T
            m = (m + m.T) / 2
            out.append(m.tolist())
    return out


SD_SETS = ['gda94_to_gda2020', 'gda2020_to_gda94', 'itrf2008_to_gda94', 'gda94_to_itrf2008', 'itrf96_to_gda94',
           'itrf2014_to_gda2020', 'atrf2014_to_gda2020']
NOSD_SETS = ['agd66_to_gda94', 'itrf2014_to_itrf2008', 'itrf2020_to_itrf93']
COV_PTS = [[-4052051.7643, 4212836.2017, -2545106.0245], [5e7, -5e7, 5e7], [0.0, 0.0, 6356752.0], [1.0, -2.0, 3.0]]


def gen_cov(tier, seed):
    mats = psd_lattice(tier)
    for name in SD_SETS + NOSD_SETS:
        for pt in COV_PTS:
            yield {'trans': ['const', name], 'pt': pt, 'mats': mats}
    # a lattice set carrying synthetic uncertainties
    yield {'trans': ['lat', 'small'], 'pt': COV_PTS[0], 'mats': mats, 'sd': [0.01, 0.02, 0.03, 0.004, 0.0005, 0.0006, 0.0007]}
    yield {'trans': ['lat', 'corner085'], 'pt': COV_PTS[1], 'mats': mats, 'sd': [0.5, 0.25, 0.125, 1.0, 0.5, 0.25, 2.0]}
    # large uncertainties: rotation sigmas of a minute of arc and more (a sigma is a plain number of arc-seconds, whatever its size)
    yield {'trans': ['lat', 'small'], 'pt': COV_PTS[0], 'mats': mats[::2], 'sd': [10.0, 20.0, 30.0, 40.0, 59.5, 60.0, 75.0]}
    yield {'trans': ['lat', 'small'], 'pt': COV_PTS[3], 'mats': mats[::2], 'sd': [1e3, 1e-9, 5.0, 100.0, 100.0, 3600.0, 0.6]}
    yield {'trans': ['names:GDA94>GDA94', 'small'], 'pt': COV_PTS[0], 'mats': mats[::2], 'sd': [0.01, 0.02, 0.03, 0.004, 0.0005, 0.0006, 0.0007]}
    # uncertainty objects whose values are (partly) exactly zero while the parameters are not: the input covariance is still
    # carried through scale and rotation
    for name, pt in (('small', COV_PTS[0]), ('corner085', COV_PTS[1]), ('axis4p', COV_PTS[3])):
        yield {'trans': ['lat', name], 'pt': pt, 'mats': mats[::3], 'sd': [0.0] * 7}
        yield {'trans': ['lat', name], 'pt': pt, 'mats': mats[::3], 'sd': [0.01, 0.02, 0.03, 0.004, 0.0, 0.0, 0.0]}
        yield {'trans': ['lat', name], 'pt': pt, 'mats': mats[::3], 'sd': [0.0, 0.0, 0.0, 0.0, 0.0005, 0.0, 0.0007]}


def ev_cov(case, rec):
    t = get_trans(case['trans'])
    if 'sd' in case:
        sdv = case['sd']
        t = gc.Transformation(t.from_datum, t.to_datum, t.ref_epoch, t.tx, t.ty, t.tz, t.sc, t.rx, t.ry, t.rz,
                              tf_sd=gc.TransformationSD(sd_tx=sdv[0], sd_ty=sdv[1], sd_tz=sdv[2], sd_sc=sdv[3],
                                                        sd_rx=sdv[4], sd_ry=sdv[5], sd_rz=sdv[6]))
    par = pristine_par(case['trans'], t)
    pt = case['pt']
    has_sd = type(t.tf_sd) is gc.TransformationSD
    held = []          # results of earlier calls: they belong to the caller and must stay what they were
    for mi, m in enumerate(case['mats']):
        one = dict(case, mats=[m])
        vcv = np.array(m, dtype=float)
        before = vcv.tobytes()
        st, r = rec.call(conform7, pt[0], pt[1], pt[2], t, vcv)
        co = {'trans': case['trans'][1], 'has_sd': has_sd}
        if vcv.tobytes() != before:
            rec.fail('conform7 modified the covariance array supplied by the caller', site='transform:conform7:vcv-argument', observed=vcv,
                     expected=m, case=one, coords=co)
        if st != 'ok':
            rec.fail('conform7 raised when a covariance was supplied', site='transform:conform7:vcv', observed=r, case=one, coords=co)
            rec.outcome('raise')
            continue
        rec.nontriv((tuple(case['trans']), tuple(pt), repr(m)))
        out = r[3]
        if not has_sd:
            if out is not None:
                rec.fail('a covariance was returned for a set without parameter uncertainties', site='transform:conform7:vcv-nosd',
                         observed=out, case=one, coords=co)
            rec.outcome('none-ok')
            continue
        if not isinstance(out, np.ndarray) or out.shape != (3, 3):
            rec.fail('no 3x3 covariance returned although input covariance and uncertainties are present',
                     site='transform:conform7:vcv-missing', observed=out, case=one, coords=co)
            continue
        rec.state(('vcv', case['trans'][1], out.tobytes().hex()[:64]))
        if np.shares_memory(out, vcv):
            rec.fail('the returned covariance shares memory with the input covariance', site='transform:conform7:vcv-alias', observed=out,
                     case=one, coords=co)
        for (po, pb) in held[-3:]:
            if po.tobytes() != pb or po is out:
                rec.fail('a covariance returned by an earlier call was overwritten by a later call (results share a work array)',
                         site='transform:conform7:vcv-result-overwritten', observed=po, case=one, coords=co)
                break
        held.append((out, out.tobytes()))
        sd = {k: om.dec_str(getattr(t.tf_sd, k)) for k in ('sd_tx', 'sd_ty', 'sd_tz', 'sd_sc', 'sd_rx', 'sd_ry', 'sd_rz')}
        exp = om.helmert_cov_mp(pt, par, m, sd)
        expf = np.array([[float(exp[i, j]) for j in range(3)] for i in range(3)])
        scale = max(float(np.max(np.abs(expf))), 1e-300)
        rel = float(np.max(np.abs(out - expf))) / scale
        asym = float(np.max(np.abs(out - out.T))) / scale
        w = np.linalg.eigvalsh((out + out.T) / 2)
        rec.dev('cov_rel', rel, one)
        bad = False
        if not (rel <= 1e-9):
            bad = True
            rec.fail('returned covariance differs from the first-order propagation J Q J^T', site='transform:conform7:vcv-value',
                     observed=out, expected=expf.tolist(), tol=1e-9, case=one, coords=dict(co, rel=rel))
        if not (asym <= 1e-12):
            bad = True
            rec.fail('returned covariance is not symmetric', site='transform:conform7:vcv-sym', observed=out, case=one, coords=co)
        if not (w.min() >= -1e-12 * max(abs(w.max()), 1e-300)):
            bad = True
            rec.fail('returned covariance is not positive semi-definite', site='transform:conform7:vcv-psd', observed=w.tolist(),
                     case=one, coords=co)
        rec.outcome('cov-bad' if bad else 'cov-ok')
        if mi == 0 and all(float(v).is_integer() for v in pt):
            # whole-metre coordinates in every exact numeric spelling (int32 / unsigned columns of a table), covariance supplied
            cfg.scalar_forms_agree(rec, lambda x_, y_, z_: conform7(x_, y_, z_, t, np.array(m, dtype=float)), [float(v) for v in pt], [0, 1, 2], r,
                                   'transform:conform7', one, co, 'conform7 (with covariance)')
        # the same matrix held in other array objects (read-only, Fortran order, strided window, np.matrix, exact dtypes)
        if (mi + len(pt)) % 3 == 0 or mi < 2:
            for nm, vf in cfg.matrix_forms(m):
                bf = np.array(vf).tobytes()
                stf, rf = rec.call(conform7, pt[0], pt[1], pt[2], t, vf)
                if np.array(vf).tobytes() != bf:
                    rec.fail('conform7 modified the covariance array supplied by the caller (%s)' % nm,
                             site='transform:conform7:vcv-argument', observed=np.array(vf), expected=m, case=one, coords=dict(co, form=nm))
                if stf != 'ok' or rf[3] is None or np.asarray(rf[3]).tobytes() != out.tobytes():
                    rec.fail('conform7 answers differently when the same covariance is held in a %s array' % nm,
                             site='transform:conform7:vcv-form', observed=rf if stf != 'ok' else rf[3], expected=out,
                             case=one, coords=dict(co, form=nm))
    rec.sample({'trans': case['trans'], 'pt': pt, 'vcv': case['mats'][0]})


# --- two threads transforming DIFFERENT points with DIFFERENT sets and covariances at the same time ----------
from gpmc import threads as _thr
import datetime as _dtm
import numpy as _tnp
import geodepy.constants as _tgc
import geodepy.transform as _tgt
import geodepy.convert as _tgv
import geodepy.geodesy as _tgg
import geodepy.statistics as _tgs
import geodepy.survey as _tsv
import geodepy.angles as _tga
_V1 = [[1e-4, 2e-5, -1e-5], [2e-5, 4e-4, 3e-5], [-1e-5, 3e-5, 9e-4]]
_V2 = [[9e-3, -2e-3, 1e-3], [-2e-3, 5e-3, 2e-3], [1e-3, 2e-3, 7e-3]]
T_CALLS = {
    'gda94_vcv': lambda: (lambda v=_tnp.array(_V1): _tgt.conform7(-4052051.7643, 4212836.2017, -2545106.0245, _tgc.gda94_to_gda2020, v)),
    'gda2020_vcv_p2': lambda: (lambda v=_tnp.array(_V2): _tgt.conform7(-2389025.0, 5043317.0, -3078531.0, _tgc.gda2020_to_gda94, v)),
    'itrf08_vcv_p3': lambda: (lambda v=_tnp.array(_V2) * 0.5: _tgt.conform7(4075539.9, 931735.3, 4801629.4, _tgc.itrf2008_to_gda94, v)),
    'agd66_novcv': lambda: (lambda: _tgt.conform7(-4646678.6, 2553206.1, -3534319.9, _tgc.agd66_to_gda94)),
    'user_set': lambda: (lambda t=_tgc.Transformation('A', 'B', 0, 1.0, -2.0, 3.0, 0.5, 0.1, -0.2, 0.3): _tgt.conform7(1e6, -2e6, 3e6, t)),
    'neg_set_vcv': lambda: (lambda v=_tnp.array(_V1) * 3.0: _tgt.conform7(-4052051.7643, 4212836.2017, -2545106.0245, -_tgc.itrf2014_to_gda2020 if False else -_tgc.gda94_to_gda2020, v)),
}
_tg, _te = _thr.make(T_CALLS, ['geodepy/transform.py', 'geodepy/constants.py'], 'transform:conform7:threads',
                     quick=['gda94_vcv', 'gda2020_vcv_p2', 'itrf08_vcv_p3', 'user_set'], triple=('gda94_vcv', 'gda2020_vcv_p2', 'agd66_novcv'),
                     files_thorough=['geodepy/angles.py'])


from gpmc import callforms as _cf


from gpmc import interp as _ip


SUBCHECKS = [
    Sub('formula', gen_formula, ev_formula, chunk=4, floor=1000, guard=True, envs=3),
    Sub('covariance', gen_cov, ev_cov, chunk=2, floor=200, guard=True, envs=2),
    Sub('threads', _tg, _te, chunk=1, floor=3, poison=False, fresh=True, timeout=7200),
    Sub('callforms', *_cf.make('C06', 'transform'), chunk=1, floor=1, guard=True),
    Sub('interpreter', *_ip.make('C06', 'transform'), chunk=1, floor=5, poison=False),
]


def bounds(tier, seed):
    return {'shipped_sets': len(catalogue()), 'lattice_sets': len(lattice_sets()), 'points': len(points(tier, seed)),
            'psd_matrices': len(psd_lattice(tier)), 'depth': 2, 'cov_sets': SD_SETS + NOSD_SETS}
