"""CLI:  python -m gpmc.run C07 quick|thorough      |   python -m gpmc.run --replay <file>"""
import importlib
import json
import os
import sys
import traceback

REPO = os.path.realpath(os.environ.get('VERIF_REPO', '/repo'))
# the tree under test must come first on sys.path (it is also installed editable in /venv)
sys.path.insert(0, REPO)

from gpmc import core  # noqa: E402


def _assert_tree():
    import geodepy
    import geodepy.constants  # noqa
    p = os.path.realpath(geodepy.constants.__file__)
    if not p.startswith(REPO + os.sep):
        print('HARNESS-ERROR: geodepy imported from %s, not from %s' % (p, REPO))
        sys.exit(2)


def load(pid):
    return importlib.import_module('gpmc.checks.' + pid.lower())


def main(argv):
    if len(argv) >= 2 and argv[0] == '--replay':
        return replay(argv[1])
    if len(argv) < 1:
        print(__doc__)
        return 2
    pid = argv[0].upper()
    tier = argv[1] if len(argv) > 1 else os.environ.get('VERIF_TIER', 'quick')
    if tier not in ('quick', 'thorough'):
        tier = 'quick'
    seed = int(os.environ.get('VERIF_SEED', '0') or 0)
    jobs = int(os.environ.get('VERIF_JOBS', '0') or 0) or (os.cpu_count() or 4)
    _assert_tree()
    # replay files of earlier runs of this property are stale once it is run again
    rdir = os.path.join(os.environ.get('VERIF_REPLAY_DIR') or os.path.join(core.HOME, 'replays'), pid)
    if os.path.isdir(rdir):
        for fn in os.listdir(rdir):
            if fn.endswith('.json'):
                os.remove(os.path.join(rdir, fn))
    try:
        mod = load(pid)
        total, per_sub, wall, capped = core.run_check(mod, tier, seed, jobs)
    except core.HarnessError as e:
        print('HARNESS-ERROR: %s' % e)
        return 2
    except Exception:
        print('HARNESS-ERROR: %s' % traceback.format_exc())
        return 2
    n_viol = sum(total.viol_count.values())
    extra = mod.evidence_extra() if hasattr(mod, 'evidence_extra') else None
    try:
        core.write_evidence(mod, tier, seed, total, per_sub, wall, n_viol, extra)
    except Exception:
        print('HARNESS-ERROR: evidence: %s' % traceback.format_exc())
        return 2
    print('%s %s seed=%d: cases=%d transitions=%d states=%d nontrivial=%d outcomes=%d wall=%.1fs'
          % (pid, tier, seed, total.cases, total.transitions, len(total.states), len(total.nontrivial),
             len(total.outcomes), wall))
    for name, d in per_sub.items():
        print('  %-28s cases=%-8d nontrivial=%-8d transitions=%-9d %.1fs' % (name, d['cases'], d['nontrivial'],
                                                                            d['transitions'], d['wall_s']))
    # every listed open finding is printed, whether or not this tier's lattice hit it
    for e in core.load_findings(pid):
        n = total.known.get(e['id'], 0)
        print('KNOWN-FINDING: property=%s %s [%s; matched %d case(s) in this run]' % (pid, e['what'], e['id'], n))
    if n_viol:
        for i, v in enumerate(total.viol):
            path = core.write_replay(pid, v, i)
            print('VIOLATION property=%s replay=%s' % (pid, path))
            print('   [%s] %s | observed=%s expected=%s tol=%s site=%s' % (
                v['subcheck'], v['msg'], json.dumps(v['observed'])[:160], json.dumps(v['expected'])[:160],
                v['tol'], v['site']))
        print('%s: %d violation(s) %s' % (pid, n_viol, dict(total.viol_count)))
        return 1
    print('%s: property held on everything explored' % pid)
    return 0


REPRO = '''import sys, json
sys.path[:0] = [%(repo)r, %(home)r, %(home)r + '/.deps']
from gpmc import core
from gpmc.checks import %(mod)s as chk
if hasattr(chk, 'prepare'): chk.prepare('quick', 0)
sub = [s for s in chk.SUBCHECKS if s.name == %(sub)r][0]
rec = core.Recorder(%(pid)r, [])
core.eval_one(sub, json.loads(%(case)r), rec)
assert not rec.viol, rec.viol[0]['msg']'''


def replay(path):
    with open(path) as f:
        v = json.load(f)
    pid = v['property']
    _assert_tree()
    mod = load(pid)
    if hasattr(mod, 'prepare'):
        mod.prepare('quick', 0)
    sub = [s for s in mod.SUBCHECKS if s.name == v['subcheck']]
    if not sub:
        print('unknown sub-check', v['subcheck'])
        return 2
    rec = core.Recorder(pid, [])
    core.eval_one(sub[0], v['case'], rec)
    print('replay %s / %s case=%s' % (pid, v['subcheck'], json.dumps(v['case'])[:400]))
    if rec.viol:
        for x in rec.viol:
            print('VIOLATION property=%s replay=%s' % (pid, path))
            print('   %s | observed=%s expected=%s tol=%s' % (x['msg'], json.dumps(x['observed'])[:300],
                                                             json.dumps(x['expected'])[:300], x['tol']))
        print('--- stand-alone reproduction (plain Python, no explorer) ---')
        print(REPRO % {'repo': REPO, 'home': core.HOME, 'mod': pid.lower(), 'pid': pid, 'sub': v['subcheck'],
                       'case': json.dumps(v['case'])})
        return 1
    print('replay: no violation (fixed or not reproducible on this tree)')
    return 0


if __name__ == '__main__':
    sys.exit(main(sys.argv[1:]))
