"""Long histories over MANY DISTINCT objects.  The other sub-checks present a handful of ellipsoids / projections / positions to a
worker process; a library that keeps per-object tables (series coefficients per ellipsoid, a memo per position) with a bounded
capacity only misbehaves once the capacity is exceeded (the entry of an earlier object is recycled, evicted, overwritten or -
worst - left pointing at another object's numbers).

One case = one history in a fresh worker:
  1. reference calls (shipped ellipsoids / projections, fixed positions) are evaluated: their values are judged against the
     independent oracle by the property's main sub-check; here they serve as the expected values;
  2. a stream of N calls follows, each with an object that was never seen before (the i-th ellipsoid / projection / position of a
     fixed family); the first 48 stream results are remembered;
  3. at every checkpoint (1, 2, 4, ... and the neighbours of every power of two up to N) all reference calls are repeated and
     must return bit-identical values; at the end the first 48 stream calls are repeated (objects rebuilt from their numbers) and
     must return what they returned the first time.
The exploration is exhaustive over the declared streams and checkpoints; N is the bound (quick 2600, thorough 70000: above the
usual cache capacities 128 / 256 / 512 / 1024 / 2048 / 4096 / 65536)."""
import math


def _tables(pid):
    import geodepy.constants as gc
    import geodepy.convert as cv
    import geodepy.geodesy as gg

    def ell(i):
        return gc.Ellipsoid(6378137.0 + 0.37 * i, 298.25 + 0.001 * (i % 89) + 1e-7 * i)

    def prj(i):
        return gc.Projection(500000 + (i % 7) * 1000, 10000000, 0.9996 + 1e-9 * i, 6, -177)

    def pos(i):
        return (-79.0 + (i * 0.61803398875 * 160.0) % 160.0, -179.0 + (i * 0.7548776662 * 358.0) % 358.0)
    E4 = [gc.grs80, gc.wgs84, gc.ans, gc.intl24]
    P3 = [(-37.8, 144.97), (12.3456, -77.1), (83.2, 15.5)]
    if pid in ('C01', 'C10'):
        refs = [('geo2grid(%s,%r)' % (n, p), (lambda e=e, p=p: cv.geo2grid(p[0], p[1], 0, e))) for n, e in zip('grs80 wgs84 ans intl24'.split(), E4) for p in P3]
        refs += [('geo2grid(isg)', lambda: cv.geo2grid(-33.5, 151.2, 0, gc.ans, gc.isg)), ('psfandgridconv', lambda: cv.geo2grid(-37.8, 144.97, 55)[4:])]
        streams = {'ellipsoids': lambda i: (lambda: cv.geo2grid(-37.8, 144.97, 0, ell(i))),
                   'projections': lambda i: (lambda: cv.geo2grid(-37.8, 144.97, 0, gc.grs80, prj(i))),
                   'positions': lambda i: (lambda: cv.geo2grid(pos(i)[0], pos(i)[1])),
                   'mixed': lambda i: (lambda: cv.geo2grid(pos(i)[0], pos(i)[1], 0, ell(i // 2), prj(i // 3)))}
    elif pid == 'C02':
        G3 = [(55, 321820.085, 5811181.510, 'South'), (18, 612345.678, 4321098.765, 'North'), (1, 500000.0, 9000000.0, 'South')]
        refs = [('grid2geo(%s,%r)' % (n, g), (lambda e=e, g=g: cv.grid2geo(g[0], g[1], g[2], g[3], e))) for n, e in zip('grs80 wgs84 ans intl24'.split(), E4) for g in G3]
        streams = {'ellipsoids': lambda i: (lambda: cv.grid2geo(55, 321820.085, 5811181.510, 'South', ell(i))),
                   'projections': lambda i: (lambda: cv.grid2geo(55, 321820.085, 5811181.510, 'South', gc.grs80, prj(i))),
                   'positions': lambda i: (lambda: cv.grid2geo(1 + i % 60, 200000.0 + (i * 377.77) % 600000.0, 1000000.0 + (i * 7919.3) % 8000000.0, 'South' if i % 2 else 'North')),
                   'mixed': lambda i: (lambda: cv.grid2geo(1 + i % 60, 200000.0 + (i * 377.77) % 600000.0, 1000000.0 + (i * 7919.3) % 8000000.0, 'South', ell(i // 2), prj(i // 3)))}
    elif pid == 'C03':
        refs = [('llh2xyz(%s,%r)' % (n, p), (lambda e=e, p=p: cv.llh2xyz(p[0], p[1], 123.4, e))) for n, e in zip('grs80 wgs84 ans intl24'.split(), E4) for p in P3]
        refs += [('xyz2llh(%s)' % n, (lambda e=e: cv.xyz2llh(-4052051.7643, 4212836.2017, -2545106.0245, e))) for n, e in zip('grs80 wgs84 ans intl24'.split(), E4)]
        streams = {'ellipsoids': lambda i: (lambda: (cv.llh2xyz(-37.8, 144.97, 50.0, ell(i)), cv.xyz2llh(-4052051.7643, 4212836.2017, -2545106.0245, ell(i)))),
                   'positions': lambda i: (lambda: cv.xyz2llh(*cv.llh2xyz(pos(i)[0], pos(i)[1], float(i))))}
    elif pid in ('C04', 'C05', 'C14'):
        refs = [('vincinv(%s)' % n, (lambda e=e: gg.vincinv(-37.57037203, 144.25295244, -37.39101561, 143.55353839, e))) for n, e in zip('grs80 wgs84 ans intl24'.split(), E4)]
        refs += [('vincdir(%s)' % n, (lambda e=e: gg.vincdir(-37.57037203, 144.25295244, 306.52053720, 54972.271, e))) for n, e in zip('grs80 wgs84 ans intl24'.split(), E4)]
        refs += [('vincinv_utm', lambda: gg.vincinv_utm(55, 321820.085, 5811181.510, 55, 273741.297, 5796489.777)),
                 ('vincdir_utm', lambda: gg.vincdir_utm(55, 321820.085, 5811181.510, 252.9930212, 50273.7856))]
        streams = {'ellipsoids': lambda i: (lambda: (gg.vincinv(-37.57037203, 144.25295244, -37.39101561, 143.55353839, ell(i)),
                                                     gg.vincdir(-37.57037203, 144.25295244, 306.52053720, 54972.271, ell(i)))),
                   'positions': lambda i: (lambda: gg.vincinv(pos(i)[0], pos(i)[1], pos(i + 1)[0] * 0.5, pos(i + 1)[1] * 0.5)),
                   'utm': lambda i: (lambda: gg.vincinv_utm(55, 321820.085 + i, 5811181.510 - i, 55, 273741.297, 5796489.777 + 2 * i, 'south', ell(i)))}
    else:
        raise KeyError(pid)
    return refs, streams


def checkpoints(n):
    cps = set()
    k = 1
    while k <= n:
        cps.update(x for x in (k - 1, k, k + 1, k + 2) if 1 <= x <= n)
        k *= 2
    cps.add(n)
    return cps


def make(pid, site, n_quick=2600, n_thorough=70000):
    def gen(tier, seed):
        _, streams = _tables(pid)
        for name in sorted(streams):
            yield {'stream': name, 'n': n_quick if tier == 'quick' else n_thorough}

    def ev(case, rec):
        import warnings
        from gpmc import cfg
        refs, streams = _tables(pid)
        st = streams[case['stream']]
        n = case['n']
        with warnings.catch_warnings():
            warnings.simplefilter('ignore')
            first = [repr(cfg.flat(t())) for _, t in refs]
            cps = checkpoints(n)
            early = {}
            bad = 0
            for i in range(n):
                try:
                    v = repr(cfg.flat(st(i)()))
                except Exception as e:
                    v = 'raise:' + type(e).__name__
                rec.transitions += 1
                if i < 48:
                    early[i] = v
                if (i + 1) in cps:
                    for (lab, t), f in zip(refs, first):
                        rec.transitions += 1
                        try:
                            now = repr(cfg.flat(t()))
                        except Exception as e:
                            now = 'raise:' + type(e).__name__
                        if now != f and bad < 5:
                            bad += 1
                            rec.fail('%s returns a different value after %d calls with %s never seen before than before them'
                                     % (lab, i + 1, case['stream']), site=site + ':many-objects', observed=now[:300], expected=f[:300], case=case,
                                     coords={'stream': case['stream'], 'after': i + 1, 'call': lab})
                    rec.state(('many', case['stream'], i + 1, bad))
            for i, f in early.items():
                rec.transitions += 1
                try:
                    v = repr(cfg.flat(st(i)()))
                except Exception as e:
                    v = 'raise:' + type(e).__name__
                if v != f and bad < 8:
                    bad += 1
                    rec.fail('call %d of the stream (%s) returns a different value when repeated after %d further objects' % (i, case['stream'], n),
                             site=site + ':many-objects-early', observed=v[:300], expected=f[:300], case=case, coords={'stream': case['stream'], 'i': i})
        rec.nontriv((pid, case['stream'], n))
        rec.outcome('many-bad' if bad else 'many-ok')
        rec.sample(case)
    return gen, ev
