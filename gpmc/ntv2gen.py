"""Synthetic NTv2 (.gsb) files with known ground truth + an independent 30-line reader.

File layout (little endian): 11 overview records of 16 bytes (8-byte key, 8-byte value), then per sub-grid 11 header
records (SUB_NAME, PARENT, CREATED, UPDATED, S_LAT, N_LAT, E_LONG, W_LONG, LAT_INC, LONG_INC, GS_COUNT) followed by
GS_COUNT nodes of four float32 (lat shift, lon shift, lat accuracy, lon accuracy), rows south -> north, within a row
east -> west (longitudes are positive WEST, in arc-seconds); a final END record.
"""
import struct
from fractions import Fraction as F

import numpy as np


def _key(k):
    return k.ljust(8)[:8].encode('ascii')


def _s(v):
    return v.ljust(8)[:8].encode('ascii')


PAD = [b'\x00' * 4]


def _i(v):
    # the four bytes after a 4-byte integer are unused padding: zero, blank or arbitrary in real files
    return struct.pack('<i', v) + PAD[0]


def _d(v):
    return struct.pack('<d', float(v))


def poly_value(coef, r, c):
    """coef: dict (i, j) -> Fraction; value sum coef[i,j] r^i c^j (exact for Fraction / int arguments)"""
    return sum(a * (r ** i) * (c ** j) for (i, j), a in coef.items())


def dims(sg):
    nrows = int(round((F(sg['n_lat']) - F(sg['s_lat'])) / F(sg['lat_inc']))) + 1
    ncols = int(round((F(sg['w_long']) - F(sg['e_long'])) / F(sg['long_inc']))) + 1
    return nrows, ncols


def node_array(sg):
    """(nrows, ncols, 4) float32 array of the four fields; every value must be exactly representable"""
    nrows, ncols = dims(sg)
    arr = np.zeros((nrows, ncols, 4), dtype=np.float32)
    for k in range(4):
        coef = sg['fields'][k]
        for r in range(nrows):
            for c in range(ncols):
                v = poly_value(coef, r, c)
                f32 = np.float32(float(v))
                if F(float(f32)) != v:
                    raise ValueError('field value %s not exactly representable in float32' % v)
                arr[r, c, k] = f32
    # non-finite "no data" values written into chosen nodes (all four fields)
    for (r, c, v) in sg.get('poison', []):
        arr[r, c, :] = np.float32(v)
    return arr


def write_gsb(path, subgrids, system_f='GDA94', system_t='GDA2020', gs_type='SECONDS', version='TESTv1', pad=b'\x00' * 4,
              axes=(6378137.0, 6356752.314, 6378137.0, 6356752.314)):
    PAD[0] = pad
    arrays = []
    with open(path, 'wb') as f:
        f.write(_key('NUM_OREC') + _i(11))
        f.write(_key('NUM_SREC') + _i(11))
        f.write(_key('NUM_FILE') + _i(len(subgrids)))
        f.write(_key('GS_TYPE') + _s(gs_type))
        f.write(_key('VERSION') + _s(version))
        f.write(_key('SYSTEM_F') + _s(system_f))
        f.write(_key('SYSTEM_T') + _s(system_t))
        f.write(_key('MAJOR_F') + _d(axes[0]))
        f.write(_key('MINOR_F') + _d(axes[1]))
        f.write(_key('MAJOR_T') + _d(axes[2]))
        f.write(_key('MINOR_T') + _d(axes[3]))
        for sg in subgrids:
            arr = node_array(sg)
            arrays.append(arr)
            nrows, ncols = arr.shape[:2]
            f.write(_key('SUB_NAME') + _s(sg['name']))
            f.write(_key('PARENT') + _s(sg.get('parent', 'NONE')))
            f.write(_key('CREATED') + _s(sg.get('created', '01012020')))
            f.write(_key('UPDATED') + _s(sg.get('updated', '29022020')))
            f.write(_key('S_LAT') + _d(sg['s_lat']))
            f.write(_key('N_LAT') + _d(sg['n_lat']))
            f.write(_key('E_LONG') + _d(sg['e_long']))
            f.write(_key('W_LONG') + _d(sg['w_long']))
            f.write(_key('LAT_INC') + _d(sg['lat_inc']))
            f.write(_key('LONG_INC') + _d(sg['long_inc']))
            f.write(_key('GS_COUNT') + _i(nrows * ncols))
            f.write(arr.astype('<f4').tobytes())
        f.write(_key('END') + b'\x00' * 8)
    return arrays


def read_gsb_independent(path):
    """independent reader used to validate the generator (not the library's)"""
    out = {'sub': []}
    with open(path, 'rb') as f:
        data = f.read()
    pos = 0

    def rec():
        nonlocal pos
        k, v = data[pos:pos + 8], data[pos + 8:pos + 16]
        pos += 16
        return k.decode('ascii').strip(), v
    hdr = {}
    for _ in range(11):
        k, v = rec()
        hdr[k] = v
    out['num_file'] = struct.unpack('<i', hdr['NUM_FILE'][:4])[0]
    out['gs_type'] = hdr['GS_TYPE'].decode().strip()
    out['system_f'] = hdr['SYSTEM_F'].decode().strip()
    for _ in range(out['num_file']):
        sh = {}
        for _ in range(11):
            k, v = rec()
            sh[k] = v
        n = struct.unpack('<i', sh['GS_COUNT'][:4])[0]
        vals = np.frombuffer(data[pos:pos + 16 * n], dtype='<f4').reshape(n, 4)
        pos += 16 * n
        out['sub'].append({'name': sh['SUB_NAME'].decode().strip(), 'parent': sh['PARENT'].decode().strip(),
                           's_lat': struct.unpack('<d', sh['S_LAT'])[0], 'n_lat': struct.unpack('<d', sh['N_LAT'])[0],
                           'e_long': struct.unpack('<d', sh['E_LONG'])[0], 'w_long': struct.unpack('<d', sh['W_LONG'])[0],
                           'lat_inc': struct.unpack('<d', sh['LAT_INC'])[0], 'long_inc': struct.unpack('<d', sh['LONG_INC'])[0],
                           'count': n, 'values': vals})
    out['end'] = data[pos:pos + 3]
    return out
